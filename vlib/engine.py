"""Engine E1: Kani code generation + direct CBMC driving on an overlay of /repo's working tree.

Everything here is regenerated from /repo's *current* working tree on every run:
  overlay -> cargo kani --only-codegen -> per harness goto-cc/goto-instrument/cbmc -> verdicts
  -> (on a counterexample) native replay of the solver's values -> VIOLATION / KNOWN-FINDING.
Exit codes of the check: 0 = held within bounds (known findings printed), 1 = VIOLATION, 2 = inconclusive.
"""
import atexit
import concurrent.futures as cf
import json
import os
import re
import shutil
import signal
import subprocess
import sys
import tempfile
import threading
import time

VERIF = os.path.dirname(os.path.dirname(os.path.abspath(__file__)))
REPO = os.environ.get("VERIF_REPO", "/repo")
KANI_LIB_C = os.path.expanduser("~/.kani/kani-0.68.0/library/kani/kani_lib.c")
CRATE = "pmtiles2"

_scratch_dirs = []


def _cleanup():
    for d in _scratch_dirs:
        shutil.rmtree(d, ignore_errors=True)


atexit.register(_cleanup)


def _sig(signum, frame):
    _cleanup()
    os._exit(130)


signal.signal(signal.SIGTERM, _sig)
signal.signal(signal.SIGINT, _sig)


def mk_scratch():
    base = os.environ.get("VERIF_SCRATCH", "/tmp")
    d = tempfile.mkdtemp(prefix="vf_", dir=base)
    _scratch_dirs.append(d)
    return d


class Inconclusive(Exception):
    pass


# ----------------------------------------------------------------------------------------------
# harness specs: parsed from "// @h key=val ..." comment lines in /verif/harness/*.rs
# ----------------------------------------------------------------------------------------------

HARNESS_DIR = os.path.join(VERIF, "harness")
OVERLAY_DIR = os.path.join(VERIF, "overlay")

# harness file name -> source file of the crate it is appended to (as a child module)
TARGETS = {
    "tile_id.rs": "src/util/tile_id.rs",
    "read_directories.rs": "src/util/read_directories.rs",
    "write_directories.rs": "src/util/write_directories.rs",
    "directory.rs": "src/directory.rs",
    "tile_manager.rs": "src/tile_manager.rs",
    "pmtiles.rs": "src/pmtiles.rs",
    "compress.rs": "src/util/compress.rs",
    "lat_lng.rs": "src/header/lat_lng.rs",
}


class Spec:
    def __init__(self, kv, fn, file):
        self.id = kv["id"]
        self.props = kv.get("prop", "").split(",")
        self.tier = kv.get("tier", "quick")
        self.cap = int(kv.get("cap", "300"))
        self.mem = int(kv.get("mem", "12"))
        self.unwind = int(kv.get("unwind", "1"))
        self.uw = kv.get("uw", "")
        self.checks = kv.get("checks", "min")
        self.expect = kv.get("expect", "hold")
        self.replay = kv.get("replay", "std")
        self.bounds = kv.get("bounds", "")
        self.role = kv.get("role", self.id)
        self.extra = kv.get("cbmc", "")
        self.stubs = kv.get("stubs", "")
        self.fn = fn
        self.file = file
        self.kv = kv
        # per-property tier override written by the rep expansion: qprops = properties for which this instance is quick
        self.qprops = kv.get("qprops")


def _expand_range(r):
    out = []
    for part in r.split(","):
        if "-" in part:
            a, b = part.split("-")
            out += list(range(int(a), int(b) + 1))
        else:
            out.append(int(part))
    return out


def _parse_kv(line):
    kv = {}
    for m in re.finditer(r'(\w+)=("([^"]*)"|\S+)', line):
        kv[m.group(1)] = m.group(3) if m.group(3) is not None else m.group(2)
    return kv


def load_harness_file(path):
    """Returns (common_text, [(Spec, block_text)]). Blocks start at '// @h' and run to the next
    '// @h', '// @common' or EOF; '// @common' blocks are always included."""
    common, blocks = [], []
    cur, cur_kind = [], "common"
    name = os.path.basename(path)

    def add_block(text):
        first = text.split("\n", 1)[0]
        kv = _parse_kv(first)
        m = re.search(r"fn\s+(\w+)\s*\(", text)
        if not m:
            raise SystemExit(f"harness block without fn in {path}: {first}")
        blocks.append((Spec(kv, m.group(1), name), text))

    def flush():
        nonlocal cur, cur_kind
        text = "".join(cur)
        if cur_kind == "common":
            common.append(text)
        else:
            kv = _parse_kv(cur[0])
            if "rep" in kv:
                # rep="z:0-31" quick="0-20": one instance per value, `$z` substituted everywhere
                var, rng = kv["rep"].split(":")
                vals = _expand_range(rng)
                q = set(_expand_range(kv["quick"])) if "quick" in kv else None
                vals2 = [None]
                if "rep2" in kv:
                    var2, rng2 = kv["rep2"].split(":")
                    vals2 = _expand_range(rng2)
                q2 = set(_expand_range(kv["quick2"])) if "quick2" in kv else None
                for v in vals:
                    for v2 in vals2:
                        t = text.replace("$" + var, str(v))
                        if v2 is not None:
                            t = t.replace("$" + var2, str(v2))
                        if q is not None or q2 is not None:
                            isq = (q is None or v in q) and (q2 is None or v2 is None or v2 in q2)
                            tier = "quick" if isq else "thorough"
                            extra = f" tier={tier}"
                            # quick_<PROP>="..." narrows the quick set for that property (values of the first variable)
                            narrowed = []
                            for key, val in kv.items():
                                if key.startswith("quick_"):
                                    narrowed.append((key[6:], set(_expand_range(val))))
                            if narrowed and isq:
                                allp = kv.get("prop", "").split(",")
                                qp = [p_ for p_ in allp if not any(n == p_ and v not in vs for n, vs in narrowed)]
                                extra += " qprops=" + (",".join(qp) if qp else "-")
                            t = re.sub(r"(// @h [^\n]*)", lambda m: m.group(1) + extra, t, count=1)
                        add_block(t)
            else:
                add_block(text)
        cur = []

    for line in open(path):
        s = line.strip()
        if s.startswith("// @h "):
            flush()
            cur_kind = "h"
        elif s.startswith("// @common"):
            flush()
            cur_kind = "common"
        cur.append(line)
    flush()
    return "".join(common), blocks


def all_specs():
    out = []
    for f in sorted(os.listdir(HARNESS_DIR)):
        if f.endswith(".rs") and f in TARGETS:
            _, blocks = load_harness_file(os.path.join(HARNESS_DIR, f))
            out += [b[0] for b in blocks]
    return out


def select(prop, tier, only=None):
    def ok(s):
        if prop not in s.props:
            return False
        if only:
            return any(re.search(o, s.id) or re.search(o, s.fn) for o in only)
        if tier == "quick":
            if s.qprops is not None and prop not in s.qprops.split(","):
                return False
            return s.tier == "quick"
        return s.tier in ("quick", "thorough")

    return ok


# ----------------------------------------------------------------------------------------------
# overlay
# ----------------------------------------------------------------------------------------------

REWRITES = [
    # (file, regex, replacement, expected count, description)
    (
        "src/tile_manager.rs",
        r"(?m)^(\s*)collections::\{HashMap, HashSet\},\n",
        "",
        1,
        "tile_manager.rs: std HashMap/HashSet import",
    ),
    (
        "src/util/read_directories.rs",
        r"(?m)^use std::collections::HashMap;\n",
        "#[cfg(not(kani))]\nuse std::collections::HashMap;\n#[cfg(kani)]\nuse crate::verif_model::HashMap;\n",
        1,
        "read_directories.rs: std HashMap import",
    ),
    (
        "src/util/write_directories.rs",
        r"u64::from\(MAX_ROOT_DIR_LENGTH\)",
        "crate::verif_io::root_budget(MAX_ROOT_DIR_LENGTH)",
        2,
        "write_directories.rs: the two comparisons with MAX_ROOT_DIR_LENGTH",
    ),
]

# Property-scoped, optional rewrites: applied only when the running property is listed, and skipped
# (with a note) when the pattern is absent, so a renamed constant never turns a check inconclusive.
ACTIVE_PROP = None
SCOPED_REWRITES = [
    # The parser's reservation limit is a capacity hint; shrinking it to 1 in the verification and replay
    # builds leaves correct code unchanged and brings "the limit leaks into the entry count" (a clamp at
    # 16 384 entries) inside the N <= 3 bound of the directory harnesses.
    (
        "src/directory.rs",
        r"(?m)^const MAX_RESERVED_ENTRIES: usize = [0-9_]+;\n",
        "#[cfg(not(any(kani, verif_replay)))]\nconst MAX_RESERVED_ENTRIES: usize = 16_384;\n"
        "#[cfg(any(kani, verif_replay))]\nconst MAX_RESERVED_ENTRIES: usize = 1;\n",
        {"C05"},
        "directory.rs: reservation limit MAX_RESERVED_ENTRIES shrunk to 1 (capacity hint only)",
    ),
]
SCOPED_APPLIED = []


def build_overlay(scratch, sel, native=False):
    """Copy /repo's working tree and append the selected harness blocks. Returns (crate_dir, specs)."""
    crate = os.path.join(scratch, "crate")
    subprocess.check_call(
        ["rsync", "-a", "--delete", "--exclude", "target", "--exclude", ".git", REPO + "/", crate + "/"]
    )
    # refuse to run on a tree that already carries our module names
    specs = []
    for f, target in TARGETS.items():
        hp = os.path.join(HARNESS_DIR, f)
        if not os.path.exists(hp):
            continue
        common, blocks = load_harness_file(hp)
        chosen = [(s, t) for (s, t) in blocks if sel(s)]
        if not chosen:
            continue
        tp = os.path.join(crate, target)
        if not os.path.exists(tp):
            raise Inconclusive(f"source file {target} not present in /repo (renamed?)")
        with open(tp, "a") as out:
            out.write("\n#[cfg(any(kani, verif_replay))]\n#[allow(warnings, clippy::all, clippy::pedantic, clippy::nursery)]\nmod verif_h {\n")
            out.write("    use super::*;\n    #[cfg(verif_replay)] use crate::verif_kani as kani;\n")
            out.write(common)
            for s, t in chosen:
                out.write(t)
                specs.append(s)
            out.write("\n}\n")
    for f in ("verif_model.rs", "verif_io.rs", "verif_kani.rs", "verif_ref.rs"):
        shutil.copy(os.path.join(OVERLAY_DIR, f), os.path.join(crate, "src", f))
    with open(os.path.join(crate, "src", "lib.rs"), "a") as out:
        out.write(
            "\n#[cfg(any(kani, verif_replay))]\n#[allow(warnings, clippy::all, clippy::pedantic, clippy::nursery, missing_docs)]\n#[doc(hidden)]\npub mod verif_model;\n"
            "#[allow(warnings, clippy::all, clippy::pedantic, clippy::nursery, missing_docs)]\n#[doc(hidden)]\npub mod verif_io;\n"
            "#[cfg(any(kani, verif_replay))]\n#[allow(warnings, clippy::all, clippy::pedantic, clippy::nursery, missing_docs)]\n#[doc(hidden)]\npub mod verif_kani;\n"
            "#[cfg(any(kani, verif_replay))]\n#[allow(warnings, clippy::all, clippy::pedantic, clippy::nursery, missing_docs)]\n#[doc(hidden)]\npub mod verif_ref;\n"
        )
    for file, rx, repl, count, desc in REWRITES:
        p = os.path.join(crate, file)
        src = open(p).read()
        if file == "src/tile_manager.rs":
            # the import sits inside a `use std::{ ... }` group: take it out and re-add both forms
            new, n = re.subn(rx, "", src)
            if n != count:
                raise Inconclusive(f"overlay rewrite did not match exactly {count}x: {desc} (matched {n})")
            new = (
                "#[cfg(not(kani))]\nuse std::collections::{HashMap, HashSet};\n"
                "#[cfg(kani)]\nuse crate::verif_model::{HashMap, HashSet};\n" + new
            )
        else:
            new, n = re.subn(rx, repl, src)
            if n != count:
                raise Inconclusive(f"overlay rewrite did not match exactly {count}x: {desc} (matched {n})")
        open(p, "w").write(new)
    del SCOPED_APPLIED[:]
    for file, rx, repl, props, desc in SCOPED_REWRITES:
        if ACTIVE_PROP not in props:
            continue
        p = os.path.join(crate, file)
        if not os.path.exists(p):
            continue
        src = open(p).read()
        new, n = re.subn(rx, repl, src)
        if n == 1:
            open(p, "w").write(new)
            SCOPED_APPLIED.append(desc)
    return crate, specs


def cargo_env(extra_rustflags=""):
    env = dict(os.environ)
    env["CARGO_NET_OFFLINE"] = "true"
    env.pop("RUSTUP_TOOLCHAIN", None)
    if extra_rustflags:
        env["RUSTFLAGS"] = (env.get("RUSTFLAGS", "") + " " + extra_rustflags).strip()
    return env


def kani_codegen(crate, scratch, log):
    t0 = time.time()
    tdir = os.path.join(scratch, "target")
    cmd = ["cargo", "kani", "--only-codegen", "-Z", "stubbing", "-Z", "unstable-options", "--no-assertion-reach-checks", "--target-dir", tdir]
    p = subprocess.run(cmd, cwd=crate, env=cargo_env(), stdout=subprocess.PIPE, stderr=subprocess.STDOUT, text=True)
    open(log, "w").write(p.stdout)
    if p.returncode != 0:
        errs = [l for l in p.stdout.splitlines() if l.startswith("error")][:8]
        raise Inconclusive("kani code generation failed on the overlaid tree: " + " | ".join(errs) + f" (log {log})")
    outs = []
    for root, _, files in os.walk(os.path.join(tdir, "kani")):
        for f in files:
            if f.endswith(".symtab.out"):
                outs.append(os.path.join(root, f))
    return outs, time.time() - t0


def find_symtab(symtabs, fn):
    suffix = f"{len(fn)}{fn}.symtab.out"
    c = [s for s in symtabs if s.endswith(suffix)]
    if len(c) != 1:
        raise Inconclusive(f"harness {fn}: {len(c)} symtab files match")
    s = c[0]
    mangled = re.sub(rf"^{CRATE}-[0-9a-f]+_", "", os.path.basename(s)[: -len(".symtab.out")])
    return s, mangled


# ----------------------------------------------------------------------------------------------
# CBMC driving
# ----------------------------------------------------------------------------------------------

BASE_FLAGS = [
    "--no-malloc-may-fail", "--no-undefined-shift-check", "--no-signed-overflow-check", "--nan-check",
    "--no-self-loops-to-assumptions", "--no-pointer-primitive-check", "--object-bits", "16",
    "--sat-solver", "cadical", "--slice-formula", "--max-field-sensitivity-array-size", "256",
]


def run(cmd, log=None, timeout=None, mem_gb=None, stdout_path=None):
    pre = ""
    if mem_gb:
        pre = f"ulimit -v {mem_gb * 1024 * 1024}; "
    sh = pre + "exec " + " ".join("'" + c.replace("'", "'\\''") + "'" for c in cmd)
    out = open(stdout_path, "w") if stdout_path else subprocess.PIPE
    try:
        p = subprocess.run(["bash", "-c", sh], stdout=out, stderr=subprocess.PIPE if stdout_path else subprocess.STDOUT,
                           timeout=timeout, text=True)
        rc = p.returncode
        text = p.stdout if not stdout_path else (p.stderr or "")
    except subprocess.TimeoutExpired:
        rc, text = -999, "TIMEOUT"
    finally:
        if stdout_path:
            out.close()
    if log:
        open(log, "a").write(f"$ {sh}\n{text}\n[rc={rc}]\n")
    return rc, text


def link_harness(spec, symtab, mangled, workdir):
    out = os.path.join(workdir, spec.fn + ".goto")
    log = os.path.join(workdir, spec.fn + ".link.log")
    lib_c = KANI_LIB_C
    if spec.kv.get("alloclimit"):
        # allocator stub: Kani's C model of __rust_alloc / __rust_alloc_zeroed / __rust_realloc with one added
        # assertion: a single request above 2^alloclimit bytes is an 'absurd allocation' (natively: abort)
        lim = int(spec.kv["alloclimit"])
        src = open(KANI_LIB_C).read()
        n = 0
        for fn, var in (("__rust_alloc", "size"), ("__rust_alloc_zeroed", "size"), ("__rust_realloc", "new_size")):
            pat = re.compile(r"(uint8_t \*" + fn + r"\([^)]*\)\s*\{\n)")
            src, k = pat.subn(lambda m: m.group(1) + f'    __KANI_assert({var} <= ((size_t)1 << {lim}), "absurd allocation: request above 2^{lim} bytes");\n', src, count=1)
            n += k
        if n != 3:
            raise Inconclusive(f"{spec.id}: could not instrument Kani's allocator model ({n}/3 functions)")
        lib_c = os.path.join(workdir, spec.fn + ".kani_lib.c")
        open(lib_c, "w").write(src)
    steps = [
        ["goto-cc", symtab, lib_c, "-o", out],
        ["goto-cc", out, "--function", mangled, "-o", out],
        ["goto-instrument", "--add-library", "--no-malloc-may-fail", out, out],
        ["goto-instrument", "--generate-function-body-options", "assert-false-assume-false",
         "--generate-function-body", ".*", "--drop-unused-functions", out, out],
        ["goto-instrument", "--ensure-one-backedge-per-target", out, out],
    ]
    for st in steps:
        rc, text = run(st, log=log, timeout=1800, mem_gb=24)
        if rc != 0:
            raise Inconclusive(f"{spec.id}: GOTO link step failed ({st[0]} rc={rc}, log {log})")
    return out


def resolve_unwindset(spec, goto, workdir):
    """Map 'regex=n;regex=n' onto loop ids from cbmc --show-loops (by demangled function name)."""
    if not spec.uw:
        return [], []
    rc, text = run(["cbmc", "--show-loops", "--json-ui", goto], timeout=600, mem_gb=16)
    loops = []
    try:
        for item in json.loads(text):
            if "loops" in item:
                loops = item["loops"]
    except Exception:
        raise Inconclusive(f"{spec.id}: cannot read loop list")
    rules = []
    for part in spec.uw.split(";"):
        part = part.strip()
        if not part:
            continue
        rx, n = part.rsplit("=", 1)
        rules.append((re.compile(rx), int(n)))
    sets, table = [], []
    rec_rules = [(rx, n) for rx, n in rules if rx.pattern.startswith("rec:")]
    rules = [(rx, n) for rx, n in rules if not rx.pattern.startswith("rec:")]
    if rec_rules:
        # recursion bounds: unwindset entries keyed by the (mangled) function identifier
        rc, text = run(["goto-instrument", "--list-goto-functions", goto], timeout=600, mem_gb=16)
        for line in text.splitlines():
            m = re.match(r"^(.*) /\* (\S+?),? ?(body not available)? ?\*/$", line.strip())
            if not m or m.group(3):
                continue
            pretty, mangled = m.group(1), m.group(2).rstrip(",")
            for rx, n in rec_rules:
                if re.search(rx.pattern[4:], pretty) and re.match(rx.pattern[4:].split("::")[0] if False else r".*", pretty):
                    if re.fullmatch(r"(?:.*::)?" + rx.pattern[4:] + r"(?:::<.*>)?", pretty):
                        sets.append(f"{mangled}:{n}")
                        table.append({"recursion": pretty, "bound": n})
    for lp in loops:
        fnname = lp.get("sourceLocation", {}).get("function", "")
        for rx, n in rules:
            if rx.search(fnname) or rx.search(lp["name"]):
                sets.append(f"{lp['name']}:{n}")
                table.append({"loop": lp["name"][-60:], "function": fnname, "line": lp.get("sourceLocation", {}).get("line"), "bound": n})
                break
    return sets, table


def cbmc_cmd(spec, goto, unwindset, extra=()):
    cmd = ["cbmc"] + BASE_FLAGS
    if spec.checks == "min":
        cmd += ["--no-standard-checks"]
    cmd += ["--unwinding-assertions", "--unwind", str(spec.unwind)]
    if unwindset:
        cmd += ["--unwindset", ",".join(unwindset)]
    if spec.extra:
        cmd += spec.extra.split()
    cmd += list(extra)
    cmd += [goto, "--verbosity", "8"]
    if "--trace" in extra:
        cmd += ["--json-ui"]
        # the trace pass runs unsliced: slicing drops kani::any() results the property does not depend on,
        # and the native replay consumes the recorded values strictly in drawing order
        if os.environ.get("VERIF_TRACE_UNSLICED", "0") == "1":
            cmd = [c for c in cmd if c != "--slice-formula"]
    return cmd


class HResult:
    def __init__(self, spec):
        self.spec = spec
        self.status = "inconclusive"   # hold | cex | inconclusive
        self.reason = ""
        self.failed = []      # list of dicts (property id, class, description, location)
        self.covers_sat = 0
        self.covers_total = 0
        self.covers_unsat = []
        self.props_total = 0
        self.props_checked = 0
        self.vccs = 0
        self.steps = 0
        self.vccs_remaining = 0
        self.vars = 0
        self.clauses = 0
        self.symex_s = 0.0
        self.solver_s = 0.0
        self.wall_s = 0.0
        self.link_s = 0.0
        self.functions = []
        self.unwind_table = []
        self.values = None
        self.replay = None
        self.goto = None
        self.unwindset = []


IGNORED_CLASSES = {"reachability_check"}
INCONCLUSIVE_CLASSES = {"unwind", "recursion"}


def parse_cbmc_text(path, res):
    """Parse CBMC's plain-text UI (the JSON UI attaches a full trace to every satisfied cover and
    reachability check: hundreds of MB and 3x the run time)."""
    try:
        txt = open(path, errors="replace").read()
    except Exception as e:
        res.reason = f"no CBMC output ({e})"
        return None
    for m in re.finditer(r"Runtime Symex: ([\d.e+-]+)s", txt):
        res.symex_s += float(m.group(1))
    for m in re.finditer(r"Runtime Solver: ([\d.e+-]+)s", txt):
        res.solver_s += float(m.group(1))
    m = re.search(r"size of program expression: (\d+) steps", txt)
    if m:
        res.steps = int(m.group(1))
    m = re.search(r"Generated (\d+) VCC\(s\), (\d+) remaining after simplification", txt)
    if m:
        res.vccs, res.vccs_remaining = int(m.group(1)), int(m.group(2))
    for m in re.finditer(r"(\d+) variables, (\d+) clauses", txt):
        res.vars, res.clauses = max(res.vars, int(m.group(1))), max(res.clauses, int(m.group(2)))
    if "** Results:" not in txt:
        low = txt.lower()
        if "out of memory" in low or "bad_alloc" in low:
            res.reason = "out of memory"
        else:
            tail = txt.strip().splitlines()[-1:] or [""]
            res.reason = "no result list in CBMC output: " + tail[0][:200]
        return None
    body = txt.split("** Results:", 1)[1]
    failed, inconc = [], []
    fnset = set()
    cur_file, cur_fn = None, None
    rx = re.compile(r"^\[(?P<id>.+?)\] (?:line (?P<line>\d+) )?(?P<desc>.*): (?P<st>SUCCESS|FAILURE|UNKNOWN|ERROR)$")
    # a property's description may contain line breaks (multi-line assert! text, Kani's "please report" notes):
    # join continuation lines until the status suffix is seen
    joined, pending = [], None
    for raw in body.splitlines():
        if pending is not None:
            pending += " " + raw.strip()
            if re.search(r": (SUCCESS|FAILURE|UNKNOWN|ERROR)$", pending):
                joined.append(pending)
                pending = None
            continue
        if raw.startswith("[") and not re.search(r": (SUCCESS|FAILURE|UNKNOWN|ERROR)$", raw):
            pending = raw
            continue
        joined.append(raw)
    if pending is not None:
        joined.append(pending)
    for line in joined:
        if not line.startswith("["):
            m = re.match(r"^(?:(\S+) )?function (.+)$", line)
            if m:
                cur_file, cur_fn = m.group(1), m.group(2)
            continue
        m = rx.match(line)
        if not m:
            continue
        pid, st = m.group("id"), m.group("st")
        parts = pid.rsplit(".", 2)
        cls = parts[-2] if len(parts) == 3 and parts[-1].isdigit() else "nobody"
        if cur_fn and cur_file and not cur_file.startswith("/"):
            fnset.add(cur_fn)
        res.props_total += 1
        if cls in IGNORED_CLASSES:
            continue
        desc = re.sub(r"\[KANI_CHECK_ID[^\]]*\]\s*", "", m.group("desc"))
        if cls == "cover":
            res.covers_total += 1
            if st == "FAILURE":
                res.covers_sat += 1
            else:
                res.covers_unsat.append(f"{cur_file}:{m.group('line')} {desc}")
            continue
        res.props_checked += 1
        if st == "SUCCESS":
            continue
        entry = {"property": pid, "class": cls, "description": desc, "file": cur_file, "line": m.group("line"),
                 "function": cur_fn, "status": st}
        in_machinery = (cur_file or "").startswith("src/verif_") or (cur_fn or "").startswith(("verif_ref::", "verif_io::", "verif_model::", "<verif_"))
        harness_arith = ("::verif_h::" in (cur_fn or "")) and ("overflow" in desc or "index out of bounds" in desc or "divide by zero" in desc)
        if in_machinery:
            entry["class"] = "machinery"
        if cls in INCONCLUSIVE_CLASSES or cls == "nobody" or st != "FAILURE" or in_machinery or harness_arith:
            # a failing obligation inside /verif's own reference code, streams or container model (or harness
            # arithmetic) is a defect or bound of the machinery, never a finding about the crate
            inconc.append(entry)
        else:
            failed.append(entry)
    res.functions = sorted(fnset)
    return failed, inconc


def extract_values(trace):
    """Inputs in drawing order. Every call of kani::any_raw_internal::<T> yields one slot (the call steps survive
    formula slicing); the slot is filled from the return-value assignment when the slicer kept it. A slot whose
    value was sliced away cannot influence the failing property; it gets the default 1 (which satisfies the
    harnesses' `>= 1` / small-range assumptions) and is marked."""
    vals = []
    for s in trace:
        st = s.get("stepType")
        if st == "function-call":
            name = (s.get("function") or {}).get("displayName", "")
            if name.startswith("kani::any_raw_internal::<"):
                vals.append({"type": name[len("kani::any_raw_internal::<"):-1], "value": "1", "sliced": True})
            continue
        if st != "assignment":
            continue
        fn = s.get("sourceLocation", {}).get("function", "")
        lhs = s.get("lhs", "")
        if fn.startswith("kani::any_raw_internal::<") and lhs.startswith("goto_symex$$return_value"):
            b = s.get("value", {}).get("binary")
            if b is None:
                continue
            ty = fn[len("kani::any_raw_internal::<"):-1]
            if vals and vals[-1].get("sliced") and vals[-1]["type"] == ty:
                vals[-1] = {"type": ty, "value": str(int(b, 2))}
            else:
                vals.append({"type": ty, "value": str(int(b, 2))})
    return vals


def run_harness(spec, symtabs, workdir, want_witness=False):
    res = HResult(spec)
    t0 = time.time()
    try:
        symtab, mangled = find_symtab(symtabs, spec.fn)
        goto = link_harness(spec, symtab, mangled, workdir)
        res.goto = goto
        res.link_s = time.time() - t0
        unwindset, table = resolve_unwindset(spec, goto, workdir)
        res.unwind_table = table
        res.unwindset = unwindset
        outp = os.path.join(workdir, spec.fn + ".cbmc.txt")
        t1 = time.time()
        rc, err = run(cbmc_cmd(spec, goto, unwindset), timeout=spec.cap, mem_gb=spec.mem, stdout_path=outp,
                      log=os.path.join(workdir, spec.fn + ".cbmc.log"))
        res.wall_s = time.time() - t1
        if rc == -999:
            res.reason = f"cap of {spec.cap}s hit"
            return res
        parsed = parse_cbmc_text(outp, res)
        if "ran out of memory" in (err or "") or "bad_alloc" in (err or ""):
            res.status = "inconclusive"
            res.reason = f"solver/symex out of memory (limit {spec.mem} GB)"
            return res
        if parsed is None:
            if not res.reason:
                res.reason = f"cbmc rc={rc}"
            if rc in (-9, 137, 134, -6) or "alloc" in err:
                res.reason = f"out of memory (limit {spec.mem} GB)"
            return res
        failed, inconc = parsed
        if spec.kv.get("recfail") == "cex":
            # harnesses about unbounded recursion: a failed recursion-unwinding assertion is a counterexample
            # candidate (the native replay must overflow the stack / abort to count as reproduced)
            rec = [e for e in inconc if ".recursion" in e["property"]]
            inconc = [e for e in inconc if e not in rec]
            failed = failed + rec
        res.failed = failed
        if inconc:
            res.status = "inconclusive"
            res.reason = "bound too small or machinery obligation failed: " + "; ".join(f"{e['property']} ({e['description'][:60]})" for e in inconc[:4])
            res.failed = failed + inconc
            if not failed:
                return res
        if failed:
            res.status = "cex"
            # second pass: trace for the first failing property
            tp = os.path.join(workdir, spec.fn + ".trace.json")
            rc2, _ = run(cbmc_cmd(spec, goto, unwindset, extra=["--property", failed[0]["property"], "--trace"]),
                         timeout=spec.cap, mem_gb=spec.mem, stdout_path=tp)
            try:
                for item in json.load(open(tp)):
                    for r in item.get("result", []):
                        if r["property"] == failed[0]["property"] and "trace" in r:
                            res.values = extract_values(r["trace"])
            except Exception as e:
                res.reason += f" (trace unavailable: {e})"
            if res.values is None:
                # properties created during symex (unwinding / recursion assertions) cannot be selected with
                # --property: take the trace of the first failure instead
                rc3, _ = run(cbmc_cmd(spec, goto, unwindset, extra=["--stop-on-fail", "--trace"]),
                             timeout=spec.cap, mem_gb=spec.mem, stdout_path=tp)
                try:
                    for item in json.load(open(tp)):
                        for r in item.get("result", []):
                            if "trace" in r and res.values is None:
                                res.values = extract_values(r["trace"])
                        if "trace" in item and res.values is None:
                            res.values = extract_values(item["trace"])
                except Exception as e:
                    res.reason += f" (trace unavailable: {e})"
            return res
        if res.covers_sat < res.covers_total:
            res.status = "inconclusive"
            res.reason = "vacuity witness not satisfiable: cover at " + ", ".join(res.covers_unsat[:4])
            return res
        if res.covers_total == 0:
            res.status = "inconclusive"
            res.reason = "harness has no reachability witness (cover)"
            return res
        res.status = "hold"
        return res
    except Inconclusive as e:
        res.reason = str(e)
        return res
    finally:
        if not res.wall_s:
            res.wall_s = time.time() - t0


def run_all(specs, symtabs, workdir, jobs=None, mem_total=int(os.environ.get("VERIF_MEM_BUDGET", "110"))):
    """Run harnesses in parallel under a memory budget (sum of declared per-harness limits)."""
    jobs = jobs or int(os.environ.get("VERIF_JOBS", "14"))
    lock = threading.Condition()
    used = [0]
    results = {}

    def worker(spec):
        need = min(spec.mem, mem_total)
        with lock:
            while used[0] + need > mem_total:
                lock.wait()
            used[0] += need
        try:
            return run_harness(spec, symtabs, workdir)
        finally:
            with lock:
                used[0] -= need
                lock.notify_all()

    order = sorted(specs, key=lambda s: -s.cap)
    with cf.ThreadPoolExecutor(max_workers=jobs) as ex:
        futs = {ex.submit(worker, s): s for s in order}
        for f in cf.as_completed(futs):
            s = futs[f]
            try:
                r = f.result()
            except Exception as e:  # engine bug: never a pass
                r = HResult(s)
                r.reason = f"engine exception {e!r}"
            results[s.id] = r
            sys.stderr.write(f"  [{s.id}] {r.status} {r.reason} ({r.wall_s:.0f}s, symex {r.symex_s:.0f}s, solver {r.solver_s:.0f}s)\n")
            sys.stderr.flush()
    return [results[s.id] for s in specs]
