"""Per-property registrations beyond the Kani/CBMC harness files: E2 (MIR->SMT) hooks and setup."""
import subprocess, sys, os

E2 = {}

def setup():
    # tool presence only; everything else is rebuilt from /repo on every run
    missing = []
    for tool in ("cargo", "cbmc", "goto-cc", "goto-instrument", "z3", "cvc5", "rsync"):
        if subprocess.call(["bash", "-c", f"command -v {tool} >/dev/null"]) != 0:
            missing.append(tool)
    if subprocess.call(["bash", "-c", "cargo kani --version >/dev/null 2>&1"]) != 0:
        missing.append("cargo-kani")
    if missing:
        print("missing tools:", missing)
        return 1
    print("setup ok")
    return 0
