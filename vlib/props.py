"""Per-property registrations beyond the Kani/CBMC harness files: E2 (MIR->SMT) hooks and setup."""
import subprocess, sys, os

E2 = {}

def setup():
    # tool presence only; everything else is rebuilt from /repo on every run
    missing = []
    for tool in ("cargo", "cbmc", "goto-cc", "goto-instrument", "z3", "cvc5", "rsync"):
        if subprocess.call(["bash", "-c", f"command -v {tool} >/dev/null"]) != 0:
            missing.append(tool)
    if subprocess.call(["bash", "-c", "cargo kani --version >/dev/null 2>&1"]) != 0:
        missing.append("cargo-kani")
    if missing:
        print("missing tools:", missing)
        return 1
    print("setup ok")
    return 0


# ----------------------------------------------------------------------------------------------
# C09 (coordinate clauses) through engine E2
# ----------------------------------------------------------------------------------------------
import json, struct, time
from fractions import Fraction
from . import e2 as X
from . import engine as E


def _c09(scratch, tier):
    from . import runner
    t0 = time.time()
    res = {"queries": [], "samples": [], "discharged": 0, "nontrivial": 0, "violations": [], "inconclusive": [],
           "assumptions": [
               "E2: IEEE-754 binary64 rounding-error lemma: every FP multiplication/division result r of normal operands satisfies |r - exact| <= 2^-53 |exact| (trusted, not solved)",
               "E2: deku's i32 reader/writer are opaque: only the arithmetic between the f64 and the i32 is encoded, the byte layout is not",
               "E2: z3 5.1.0 (z3-new; 4.8.12 does not terminate on the linear mixed integer/real lemma queries) and cvc5 1.0 must agree on every query",
           ]}
    cap = 60 if tier == "quick" else 600
    try:
        mir = X.dump_mir(scratch)
        enc, dec = X.extract(mir)
    except X.E2Error as e:
        res["inconclusive"].append(f"E2: {e}")
        return res
    res["samples"].append({"enc(x)": X.show(enc), "dec(v)": X.show(dec), "from": "nightly MIR dump of /repo's working tree"})
    # translator validation: the repository's own unit-test vectors
    vectors = [(-180.0, -1800000000), (180.0, 1800000000), (0.0, 0), (-85.0, -850000000)]
    for deg, stored in vectors:
        if X.ev(enc, deg) != stored or abs(X.ev(dec, stored) - deg) > 2.3e-16 * max(1.0, abs(deg)):
            res["inconclusive"].append(f"E2: translator validation failed on the repo's test vector {deg} <-> {stored}: enc={X.ev(enc, deg)} dec={X.ev(dec, stored)}")
            return res
    res["queries"].append({"harness": "E2.validate", "status": "hold", "bounds": "4 unit-test vectors of src/header/lat_lng.rs pushed through the extracted expression trees"})

    spec_by_fn = {s.fn: s for s in E.all_specs()}

    def confirm(kind, value_json, what):
        spec = spec_by_fn["r9_a_roundtrip" if kind == "a" else "r9_b_nearest"]
        rp = runner.replay_values(scratch, spec, value_json)
        reproduced = [p for p, (v, _) in rp.items() if v == "reproduced"]
        if reproduced:
            os.makedirs(runner.REPLAYS, exist_ok=True)
            rpath = os.path.join(runner.REPLAYS, f"C09_{spec.fn}.json")
            json.dump({"property": "C09", "harness": spec.id, "fn": spec.fn, "file": spec.file, "values": value_json, "native": {k: list(v) for k, v in rp.items()}, "what": what}, open(rpath, "w"), indent=1)
            res["violations"].append((rpath, f"{what}; native replay: {rp[reproduced[0]][1]} [{','.join(reproduced)}]"))
        else:
            res["inconclusive"].append(f"E2: candidate did not reproduce against the real functions: {what} {rp}")

    # ---- (a) for every stored i32 v: enc(dec(v)) == v ----------------------------------------
    R = X.RealEnc()
    d = R.term(dec, "v", True)
    # enc over the real value d: substitute input by the term d
    class Sub(X.RealEnc):
        pass
    e_term = R.term(_subst(enc, ("rawterm", d)), "v", True) if False else _real_of(R, enc, d)
    text = "(set-logic ALL)\n(define-fun eps () Real (/ 1.0 9007199254740992.0))\n(declare-const v Int)\n" + "\n".join(R.decls) + \
           "\n(assert (and (>= v (- 2147483648)) (<= v 2147483647)))\n" + "\n".join(f"(assert {a})" for a in R.asserts) + \
           f"\n(assert (not (= {e_term} (to_real v))))\n"
    rz, rc = X.both(text, cap)
    q = {"harness": "E2.a-lemma", "bounds": "every stored coordinate v in i32 (all 2^32 values), reals + rounding-error lemma", "z3": rz[0], "cvc5": rc[0],
         "solver_s": round(rz[2] + rc[2], 2), "functions": ["LatLng::read_lat_lon", "LatLng::write_lat_lon"]}
    res["queries"].append(q)
    if rz[0] == "unsat" and rc[0] == "unsat":
        q["status"] = "hold"
        res["discharged"] += 1
        res["nontrivial"] += 1
    else:
        q["status"] = "candidate"
        # find a concrete counterexample bit-precisely (and by the solver's own model), confirm natively
        cands = []
        for r in (rz, rc):
            if r[0] == "sat":
                mv = X.model_int(r[1], "v")
                if mv is not None:
                    cands.append(mv)
        fp = "(set-logic ALL)\n(declare-const v (_ BitVec 32))\n" + f"(assert (not (= {X.smt_fp(enc, X.smt_fp(dec, 'v'))} v)))\n(check-sat)\n(get-model)\n"
        rz2 = X.run_solver(["/usr/bin/z3", "-in", f"-T:{cap}"], fp, cap + 5)
        res["queries"].append({"harness": "E2.a-bitprecise", "bounds": "all 2^32 stored values, FloatingPoint(11,53)", "z3": rz2[0], "solver_s": round(rz2[2], 2), "status": "search"})
        if rz2[0] == "sat":
            mv = X.model_int(rz2[1], "v")
            if mv is not None:
                cands.insert(0, mv)
        hit = [v for v in cands if X.ev(enc, X.ev(dec, v)) != v]
        if hit:
            v = hit[0]
            confirm("a", [{"type": "i32", "value": str(v & 0xffffffff)}], f"stored coordinate {v} is read as {X.ev(dec, v)!r} and re-encoded as {X.ev(enc, X.ev(dec, v))}")
        else:
            res["inconclusive"].append(f"E2.a: solvers did not prove the round trip (z3={rz[0]}, cvc5={rc[0]}) and no confirmed counterexample was found")

    # ---- (b) for every x in [-180, 180]: |enc(x) - x*1e7| <= 0.5 + 1e-6 ------------------------
    R2 = X.RealEnc()
    e2t = R2.term(enc, "x", False)
    text = "(set-logic ALL)\n(define-fun eps () Real (/ 1.0 9007199254740992.0))\n(declare-const x Real)\n" + "\n".join(R2.decls) + \
           "\n(assert (and (>= x (- 180.0)) (<= x 180.0)))\n" + "\n".join(f"(assert {a})" for a in R2.asserts) + \
           f"\n(define-fun dlt () Real (- {e2t} (* x 10000000.0)))\n(assert (or (> dlt 0.500001) (< dlt (- 0.500001))))\n"
    rz, rc = X.both(text, cap)
    q = {"harness": "E2.b-lemma", "bounds": "every real x in [-180, 180] (superset of the f64 inputs), tolerance 0.5 + 1e-6, reals + rounding-error lemma", "z3": rz[0], "cvc5": rc[0],
         "solver_s": round(rz[2] + rc[2], 2), "functions": ["LatLng::write_lat_lon"]}
    res["queries"].append(q)
    if rz[0] == "unsat" and rc[0] == "unsat":
        q["status"] = "hold"
        res["discharged"] += 1
        res["nontrivial"] += 1
    else:
        q["status"] = "candidate"
        # candidate search natively around half-steps (the solver's real-valued model need not be a double)
        hit = None
        for k in (0, 1, 2, 7, 21, 123456789, 1799999999, -1, -21, -1799999999):
            for off in (0.4, 0.49, 0.5, 0.51, 0.6, 0.9):
                x = (k + (off if k >= 0 else -off)) / 1e7
                if -180.0 <= x <= 180.0 and abs(X.ev(enc, x) - x * 1e7) > 0.500001:
                    hit = x
                    break
            if hit is not None:
                break
        if hit is not None:
            bits = struct.unpack(">Q", struct.pack(">d", hit))[0]
            confirm("b", [{"type": "u64", "value": str(bits)}], f"{hit!r} degrees is stored as {X.ev(enc, hit)} but {hit * 1e7!r} is nearer to another multiple of 1e-7")
        else:
            res["inconclusive"].append(f"E2.b: solvers did not prove nearest-rounding (z3={rz[0]}, cvc5={rc[0]}) and no confirmed counterexample was found")
    res["assertions"] = len(R.asserts) + len(R2.asserts) + 4
    for qq in res["queries"]:
        res["samples"].append({"obligation": qq["harness"], "bounds": qq.get("bounds"), "verdict": qq.get("status"), "z3": qq.get("z3"), "cvc5": qq.get("cvc5")})
    return res


def _real_of(R, tree, inner_term):
    """encode `tree` over reals where the input leaf is the already-encoded real term `inner_term`"""
    return R.term(tree, inner_term, False)


def _subst(t, x):
    return t


E2["C09"] = _c09
