"""Property-level driver: selects harnesses, runs engine E1 (and E2 where registered), replays
counterexamples natively, matches known findings, writes evidence, prints the verdict lines."""
import json
import os
import re
import shutil
import subprocess
import sys
import time

from . import engine as E

KNOWN = os.path.join(E.VERIF, "known_findings.json")
REPLAYS = os.path.join(E.VERIF, "replays")
EVID = os.path.join(E.VERIF, "evidence")


def load_known():
    try:
        return json.load(open(KNOWN)).get("findings", [])
    except FileNotFoundError:
        return []


def known_match(prop, spec, failed):
    """A known finding is keyed by property + harness role + failing site label (never by values)."""
    for k in load_known():
        if k.get("status") != "open":
            continue
        if prop not in k["properties"]:
            continue
        if k["role"] != spec.role:
            continue
        site = k.get("site_regex")
        if site:
            f0 = failed[0] if failed else {}
            where = f"{f0.get('file')}:{f0.get('function')}:{f0.get('description')}"
            if not re.search(site, where):
                continue
        return k
    return None


# ----------------------------------------------------------------------------------------------
# native replay
# ----------------------------------------------------------------------------------------------

def to_replay_source(text):
    text = re.sub(r"#\[kani::proof\]", "#[test]", text)
    text = re.sub(r"(?m)^\s*#\[kani::(stub|unwind|solver|should_panic)[^\n]*\n", "", text)
    return text


def build_replay(scratch, spec_ids):
    """Native build of the same overlay (std containers, real hasher, real header codec, no stubs)."""
    sel = lambda s: s.id in spec_ids
    crate = os.path.join(scratch, "replay_crate")
    sub = os.path.join(scratch, "rp")
    os.makedirs(sub, exist_ok=True)
    c, specs = E.build_overlay(sub, sel, native=True)
    # rewrite harness attributes for the native build
    for f, target in E.TARGETS.items():
        p = os.path.join(c, target)
        if os.path.exists(p):
            src = open(p).read()
            if "mod verif_h" in src:
                head, tail = src.split("mod verif_h {", 1)
                open(p, "w").write(head + "mod verif_h {" + to_replay_source(tail))
    return c, specs


def replay_values(scratch, spec, values, tries=1):
    """Returns dict(profile -> 'reproduced'|'clean'|'invalid'|'builderror', detail)."""
    c, _ = build_replay(scratch, {spec.id})
    vp = os.path.join(scratch, f"values_{spec.fn}.json")
    json.dump({"harness": spec.fn, "values": values}, open(vp, "w"))
    out = {}
    for profile, flag in (("dev", []), ("release", ["--release"])):
        env = E.cargo_env("--cfg verif_replay")
        env["VERIF_VALUES"] = vp
        env["RUST_BACKTRACE"] = "0"
        # dependency builds are shared between runs (a cold native build of the crate's dependencies, zstd's C code
        # included, takes minutes); the overlaid crate itself is rebuilt from the scratch copy every time
        env["CARGO_TARGET_DIR"] = os.environ.get("VERIF_REPLAY_TARGET", os.path.join(E.VERIF, ".cache", "replay_target"))
        verdict, detail = "clean", ""
        for _ in range(tries):
            p = subprocess.run(["cargo", "test", "--offline", "--lib"] + flag + ["--", "--exact", "--test-threads", "1", "--nocapture", _test_path(spec)],
                               cwd=c, env=env, stdout=subprocess.PIPE, stderr=subprocess.STDOUT, text=True, timeout=1800)
            txt = p.stdout
            if "error[" in txt or "could not compile" in txt:
                verdict, detail = "builderror", "\n".join(l for l in txt.splitlines() if l.startswith("error"))[:400]
                break
            if "VERIF_REPLAY_ASSUME_VIOLATED" in txt:
                verdict, detail = "invalid", "recorded values violate a harness assumption"
                break
            if "running 0 tests" in txt or "running 1 test" not in txt:
                verdict, detail = "builderror", "harness test not found in native build"
                break
            if p.returncode != 0:
                m = re.search(r"panicked at ([^\n]*)\n([^\n]*)", txt)
                detail = (m.group(1) + " " + m.group(2)) if m else ("abort/overflow: " + txt[-300:])
                verdict = "reproduced"
                break
        out[profile] = (verdict, detail)
        if verdict == "reproduced":
            break   # one reproducing profile decides; the release build is only tried when dev did not reproduce
    return out


def _test_path(spec):
    mod = E.TARGETS[spec.file][len("src/"):-len(".rs")].replace("/", "::")
    return f"{mod}::verif_h::{spec.fn}"


# ----------------------------------------------------------------------------------------------
# evidence
# ----------------------------------------------------------------------------------------------

def write_evidence(prop, tier, seed, results, wall, extra_assumptions, violations, notes, e2=None):
    hs = []
    vccs = sum(r.vccs for r in results)
    checked = sum(r.props_checked for r in results)
    nontrivial = sum(r.covers_sat for r in results if r.status == "hold" and r.covers_total > 0 and r.covers_sat == r.covers_total)
    samples = []
    for r in results:
        s = r.spec
        hs.append({
            "harness": s.id, "fn": s.fn, "file": "harness/" + s.file, "status": r.status, "reason": r.reason,
            "bounds": s.bounds, "unwind_default": s.unwind, "unwind_table": r.unwind_table, "checks": s.checks,
            "stubs": s.stubs, "properties_checked": r.props_checked, "vccs_generated": r.vccs,
            "vccs_after_slicing": r.vccs_remaining, "sat_variables": r.vars, "sat_clauses": r.clauses,
            "symex_s": round(r.symex_s, 2), "solver_s": round(r.solver_s, 2), "wall_s": round(r.wall_s, 1),
            "link_s": round(r.link_s, 1), "covers_satisfied": r.covers_sat, "covers_total": r.covers_total,
            "crate_functions_encoded": [f for f in r.functions if not f.startswith(("std::", "core::", "alloc::", "<std::", "<core::", "<alloc::", "kani::"))][:60],
            "failed": r.failed[:5], "replay": r.replay,
        })
        samples.append({"obligation": s.id, "fn": s.fn, "bounds": s.bounds, "verdict": r.status,
                        "assertions_discharged": r.props_checked, "covers": f"{r.covers_sat}/{r.covers_total}"})
    if e2:
        hs += e2.get("queries", [])
        samples += e2.get("samples", [])
        checked += e2.get("discharged", 0)
        nontrivial += e2.get("nontrivial", 0)
    ev = {
        "property_id": prop, "tier": tier, "seed": seed, "level": "model_checking",
        "coverage": {
            "states": max(sum(r.steps for r in results) + (e2.get("assertions", 0) if e2 else 0), 1),
            "transitions": max(vccs + (e2.get("discharged", 0) if e2 else 0), 1),
            "traces_validated_against_impl": sum(1 for r in results if r.replay),
            "mc_key_meaning": "bounded model checking has no explicit state graph; states = SSA steps of the symbolic execution of the harness programs (CBMC 'size of program expression', summed; for E2: SMT assertions), transitions = verification conditions generated from them (for E2: queries discharged), traces_validated_against_impl = solver counterexample traces replayed natively against the real crate in this run (0 when every harness held)",
            "evaluations": max(checked, 1),
            "distinct_nontrivial": nontrivial,
            "rule": "one evaluation = one assertion/overflow/bounds obligation of a harness decided by the SAT solver for ALL values of the harness' symbolic inputs within the stated bounds; distinct_nontrivial counts the kani::cover! reachability witnesses (named regions of the input space: boundary values, branch taken / not taken) that the solver showed satisfiable inside harnesses that held; a harness with an unsatisfiable witness is reported inconclusive, never held",
            "samples": samples,
            "harnesses": hs,
            "exhaustive": False,
            "explanation": "bounded symbolic execution (Kani 0.68 -> GOTO -> CBMC 6.11 + CaDiCaL) of the crate's own functions, regenerated from /repo's working tree for this run; bounds per harness in 'bounds'/'unwind_table'; unwinding assertions on",
            "queries_discharged": checked, "vccs_generated": vccs,
            "solver_s_total": round(sum(r.solver_s for r in results), 1),
            "symex_s_total": round(sum(r.symex_s for r in results), 1),
            "notes": notes,
        },
        "assumptions": extra_assumptions,
        "wall_s": round(wall, 1),
        "violations": violations,
    }
    os.makedirs(EVID, exist_ok=True)
    json.dump(ev, open(os.path.join(EVID, f"{prop}.json"), "w"), indent=1)


ASSUMPTIONS_COMMON = [
    "Kani 0.68 models the dev profile (overflow checks on); its lowering of Rust to GOTO and CBMC 6.11/CaDiCaL are trusted",
    "harness modules are appended to a scratch copy of /repo's working tree as child modules (cfg(kani)); /repo itself carries no hooks",
    "internal compression is Compression::None in every harness (gzip/brotli/zstd arms are outside reach); async twins are not encoded",
]

ASSUMPTIONS_MODEL = "std HashMap/HashSet in tile_manager.rs and read_directories.rs are replaced by /verif/overlay/verif_model.rs (fixed-capacity association list, nondeterministic iteration order, capacity overflow is an assertion)"


def run_property(prop, tier, seed, only=None, e2_fn=None, keep=False):
    t0 = time.time()
    scratch = E.mk_scratch()
    sel = E.select(prop, tier, only)
    violations, known_lines, inconclusive = [], [], []
    results, e2 = [], None
    notes = []
    try:
        E.ACTIVE_PROP = prop
        crate, specs = E.build_overlay(scratch, sel)
        for d in E.SCOPED_APPLIED:
            notes.append("scoped overlay rewrite: " + d)
        if specs:
            symtabs, gen_s = E.kani_codegen(crate, scratch, os.path.join(scratch, "codegen.log"))
            notes.append(f"kani codegen {gen_s:.0f}s for {len(specs)} harnesses")
            work = os.path.join(scratch, "work")
            os.makedirs(work, exist_ok=True)
            if seed:
                import random
                random.Random(seed).shuffle(specs)
            results = E.run_all(specs, symtabs, work)
        if e2_fn:
            e2 = e2_fn(scratch, tier)
            for v in e2.get("violations", []):
                violations.append(v)
            for v in e2.get("inconclusive", []):
                inconclusive.append(v)
        for r in results:
            s = r.spec
            if r.status == "hold":
                if s.expect.startswith("finding"):
                    inconclusive.append(f"{s.id}: harness registered as witness of a known finding no longer fails (finding fixed? update known_findings.json)")
                continue
            if r.status == "inconclusive":
                inconclusive.append(f"{s.id}: {r.reason}")
                continue
            # counterexample
            f0 = r.failed[0]
            desc = f"{f0['description']} at {f0['file']}:{f0['line']} ({f0['function']})"
            if r.values is None:
                inconclusive.append(f"{s.id}: counterexample without extractable input values: {desc}")
                continue
            rp = replay_values(scratch, s, r.values, tries=int(s.kv.get("tries", "1")))
            if all(v == "invalid" for v, _ in rp.values()) and any(x.get("sliced") for x in r.values):
                # the defaults chosen for sliced-away inputs violate a harness assumption: redo the trace pass unsliced
                os.environ["VERIF_TRACE_UNSLICED"] = "1"
                try:
                    tp = os.path.join(os.path.dirname(r.goto), s.fn + ".trace2.json")
                    E.run(E.cbmc_cmd(s, r.goto, r.unwindset, extra=["--property", f0["property"], "--trace"]), timeout=s.cap, mem_gb=s.mem, stdout_path=tp)
                    for item in json.load(open(tp)):
                        for rr in item.get("result", []):
                            if "trace" in rr:
                                r.values = E.extract_values(rr["trace"])
                    rp = replay_values(scratch, s, r.values, tries=int(s.kv.get("tries", "1")))
                except Exception:
                    pass
                finally:
                    os.environ.pop("VERIF_TRACE_UNSLICED", None)
            r.replay = {k: list(v) for k, v in rp.items()}
            reproduced = [p for p, (v, _) in rp.items() if v == "reproduced"]
            os.makedirs(REPLAYS, exist_ok=True)
            rpath = os.path.join(REPLAYS, f"{prop}_{s.fn}.json")
            rec = {"property": prop, "harness": s.id, "fn": s.fn, "file": s.file, "values": r.values,
                   "failed": f0, "native": r.replay}
            if not reproduced:
                if s.replay == "model":
                    # counterexamples that depend on choices native code cannot be forced into (map iteration order)
                    inconclusive.append(f"{s.id}: counterexample {desc} did not reproduce natively ({rp}); model-level only")
                else:
                    inconclusive.append(f"{s.id}: counterexample {desc} did NOT reproduce natively: {rp}")
                json.dump(rec, open(rpath + ".unreproduced", "w"), indent=1)
                continue
            k = known_match(prop, s, r.failed)
            if k:
                known_lines.append(f"KNOWN-FINDING: property={prop} {k['id']} {k['what']} [harness {s.id}; reproduced natively in {','.join(reproduced)}]")
                continue
            json.dump(rec, open(rpath, "w"), indent=1)
            violations.append((rpath, f"{s.id}: {desc}; native replay: {rp[reproduced[0]][1]} [{','.join(reproduced)}]"))
    except E.Inconclusive as e:
        inconclusive.append(str(e))
    wall = time.time() - t0
    assumptions = list(ASSUMPTIONS_COMMON)
    if any(s.spec.file in ("tile_manager.rs", "read_directories.rs", "pmtiles.rs") for s in results):
        assumptions.append(ASSUMPTIONS_MODEL)
    for r in results:
        if r.spec.stubs:
            assumptions.append(f"{r.spec.id}: stubs/cuts: {r.spec.stubs}")
    if e2:
        assumptions += e2.get("assumptions", [])
    write_evidence(prop, tier, seed, results, wall, assumptions, len(violations), notes + [f"inconclusive: {x}" for x in inconclusive], e2)
    for l in known_lines:
        print(l)
    for rpath, what in violations:
        print(f"VIOLATION property={prop} replay={rpath}")
        print(f"  {what}")
    for x in inconclusive:
        print(f"INCONCLUSIVE property={prop} {x}")
    held = sum(1 for r in results if r.status == "hold")
    print(f"[{prop}/{tier}] harnesses held {held}/{len(results)}"
          + (f", E2 queries {e2.get('discharged', 0)}" if e2 else "")
          + f", violations {len(violations)}, known {len(known_lines)}, inconclusive {len(inconclusive)}, wall {wall:.0f}s")
    if keep:
        E._scratch_dirs.remove(scratch)
        print("scratch kept at", scratch)
    if violations:
        return 1
    if inconclusive:
        return 2
    if not results and not e2:
        print("no harness selected")
        return 2
    return 0


def replay_file(path):
    rec = json.load(open(path))
    spec = [s for s in E.all_specs() if s.fn == rec["fn"]]
    if not spec:
        print("unknown harness", rec["fn"])
        return 2
    scratch = E.mk_scratch()
    rp = replay_values(scratch, spec[0], rec["values"])
    print(json.dumps(rp, indent=1))
    return 1 if any(v == "reproduced" for v, _ in rp.values()) else 0
