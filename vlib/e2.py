"""Engine E2: MIR -> SMT-LIB for the two loop-free coordinate kernels of src/header/lat_lng.rs.

The nightly MIR dump of /repo's current working tree is parsed; the data flow from the f64 argument of
`write_lat_lon` to the i32 handed to the (opaque) deku writer, and from the i32 produced by the (opaque)
deku reader to the f64 returned by `read_lat_lon`, is translated statement by statement. Only
Mul/Div/Add/Sub with constants, IntToFloat (`<f64 as From<i32>>::from`), FloatToInt casts (saturating,
as Rust defines them) and f64::{round,trunc,floor,ceil} are accepted; anything else => inconclusive.

Two encodings of the same expression trees:
  * bit-precise (FloatingPoint 11 53): used to FIND counterexamples,
  * reals + IEEE-754 rounding-error lemma (each FP mul/div result r is a fresh real with
    |r - exact| <= 2^-53 * |exact|, all values normal): used to PROVE (unsat = holds for all inputs,
    given the lemma, which is part of the trusted base).
Every query runs on z3 and cvc5; they must agree. A sat model is only a candidate: it is evaluated
with the same IEEE double arithmetic and replayed against the real functions before it is reported.
"""
import os
import re
import subprocess
import time

from . import engine as E


class E2Error(Exception):
    pass


def dump_mir(scratch):
    crate = os.path.join(scratch, "mir_crate")
    subprocess.check_call(["rsync", "-a", "--delete", "--exclude", "target", "--exclude", ".git", E.REPO + "/", crate + "/"])
    env = E.cargo_env()
    env["CARGO_TARGET_DIR"] = os.path.join(scratch, "mir_target")
    subprocess.run(["touch", os.path.join(crate, "src/lib.rs")])
    p = subprocess.run(["cargo", "+nightly", "rustc", "--offline", "--lib", "--", "-Zunpretty=mir", "-C", "debug-assertions=off",
                        "-C", "overflow-checks=on"], cwd=crate, env=env, stdout=subprocess.PIPE, stderr=subprocess.PIPE, text=True)
    if p.returncode != 0 or "fn " not in p.stdout:
        raise E2Error("MIR dump failed: " + p.stderr[-300:])
    return p.stdout


def fn_body(mir, name):
    m = re.search(r"^fn [^\n]*::" + name + r"\((?P<args>[^\n]*)\) -> [^\n]*\{\n(?P<body>.*?)^\}", mir, re.S | re.M)
    if not m:
        raise E2Error(f"function {name} not found in MIR (renamed?)")
    return m.group("args"), m.group("body")


def const_f64(mir, path):
    name = path.split("::")[-1]
    m = re.search(r"^const (?:[\w:]+::)?" + name + r": f64 = const ([-+0-9.eE]+)f64;", mir, re.M)
    if not m:
        raise E2Error(f"constant {path} not found")
    return float(m.group(1))


def stmts(body):
    out = []
    for line in body.splitlines():
        s = line.strip()
        if re.match(r"^_\d+ = ", s):
            out.append(s)
    return out


def parse_operand(op, mir):
    op = op.strip()
    m = re.match(r"^(?:copy|move) (_\d+)$", op)
    if m:
        return ("var", m.group(1))
    m = re.match(r"^const ([-+0-9.eE]+)f64$", op)
    if m:
        return ("const", float(m.group(1)))
    m = re.match(r"^const ([\w:]+)$", op)
    if m:
        return ("const", const_f64(mir, m.group(1)))
    raise E2Error(f"unsupported operand `{op}`")


def build_defs(body, mir):
    """map var -> expression tree over ('var',x) | ('const',c) | (op, a, b) | (fn, a)"""
    defs = {}
    for s in stmts(body):
        lhs, rhs = s.split(" = ", 1)
        rhs = re.sub(r" -> \[return.*$", "", rhs).rstrip(";")
        m = re.match(r"^(Mul|Div|Add|Sub)\((.*), (.*)\)$", rhs)
        if m:
            defs[lhs] = (m.group(1).lower(), parse_operand(m.group(2), mir), parse_operand(m.group(3), mir))
            continue
        m = re.match(r"^(?:std|core)::f64::<impl f64>::(round|trunc|floor|ceil|round_ties_even)\((.*)\)$", rhs)
        if m:
            defs[lhs] = (m.group(1), parse_operand(m.group(2), mir))
            continue
        m = re.match(r"^(?:std|core)::f64::<impl f64>::clamp\((.*), (.*), (.*)\)$", rhs)
        if m:
            defs[lhs] = ("clamp", parse_operand(m.group(1), mir), parse_operand(m.group(2), mir), parse_operand(m.group(3), mir))
            continue
        m = re.match(r"^(?:std|core)::f64::<impl f64>::(min|max)\((.*), (.*)\)$", rhs)
        if m:
            defs[lhs] = (m.group(1), parse_operand(m.group(2), mir), parse_operand(m.group(3), mir))
            continue
        m = re.match(r"^<f64 as From<i32>>::from\((.*)\)$", rhs)
        if m:
            defs[lhs] = ("i2f", parse_operand(m.group(1), mir))
            continue
        m = re.match(r"^(?:copy|move) (_\d+) as i32 \(FloatToInt\)$", rhs)
        if m:
            defs[lhs] = ("f2i", ("var", m.group(1)))
            continue
        m = re.match(r"^(?:copy|move) (_\d+) as f64 \(IntToFloat\)$", rhs)
        if m:
            defs[lhs] = ("i2f", ("var", m.group(1)))
            continue
        m = re.match(r"^&(_\d+)$", rhs)
        if m:
            defs[lhs] = ("var", m.group(1))
            continue
        m = re.match(r"^(?:copy|move) (_\d+)$", rhs)
        if m:
            defs[lhs] = ("var", m.group(1))
            continue
        m = re.match(r"^copy \((_\d+)\.1: i32\)$", rhs)
        if m:
            defs[lhs] = ("field1", m.group(1))
            continue
        defs[lhs] = ("opaque", rhs)
    return defs


def resolve(e, defs, leaf, depth=0):
    if depth > 40:
        raise E2Error("expression too deep")
    if e[0] == "const":
        return e
    if e[0] == "var":
        if e[1] == leaf:
            return ("input",)
        if e[1] not in defs:
            raise E2Error(f"{e[1]} has no definition")
        return resolve(defs[e[1]], defs, leaf, depth + 1)
    if e[0] == "field1":
        return ("input",)            # the i32 produced by the opaque deku reader
    if e[0] == "opaque":
        raise E2Error("unsupported statement on the data path: " + e[1][:120])
    if e[0] in ("mul", "div", "add", "sub", "min", "max"):
        return (e[0], resolve(e[1], defs, leaf, depth + 1), resolve(e[2], defs, leaf, depth + 1))
    if e[0] == "clamp":
        return ("min", ("max", resolve(e[1], defs, leaf, depth + 1), resolve(e[2], defs, leaf, depth + 1)), resolve(e[3], defs, leaf, depth + 1))
    return (e[0], resolve(e[1], defs, leaf, depth + 1))


def extract(mir):
    """returns (enc_tree over f64 input -> i32, dec_tree over i32 input -> f64)"""
    _, wbody = fn_body(mir, "write_lat_lon")
    wdefs = build_defs(wbody, mir)
    sink = None
    for s in stmts(wbody):
        m = re.search(r"<i32 as deku::DekuWrite>::write\((?:move|copy) (_\d+),", s)
        if m:
            sink = m.group(1)
    if not sink:
        raise E2Error("write_lat_lon: no `<i32 as DekuWrite>::write` call found")
    enc = resolve(("var", sink), wdefs, "_2")
    _, rbody = fn_body(mir, "read_lat_lon")
    rdefs = build_defs(rbody, mir)
    ret = None
    for s in stmts(rbody):
        m = re.match(r"^(_\d+) = \((?:copy|move) _\d+, (?:move|copy) (_\d+)\);", s)
        if m:
            ret = m.group(2)
    if not ret:
        raise E2Error("read_lat_lon: returned tuple not found")
    if not re.search(r"<i32 as deku::DekuRead<'_>>::read\(", rbody):
        raise E2Error("read_lat_lon: no `<i32 as DekuRead>::read` call found")
    dec = resolve(("var", ret), rdefs, None)
    return enc, dec


def show(t):
    if t[0] == "input":
        return "x"
    if t[0] == "const":
        return repr(t[1])
    if len(t) == 3:
        return f"{t[0]}({show(t[1])}, {show(t[2])})"
    return f"{t[0]}({show(t[1])})"


# ---------------------------------------------------------------------------------------------
# native evaluation (IEEE doubles, Rust cast semantics)
# ---------------------------------------------------------------------------------------------
import math


def ev(t, x):
    k = t[0]
    if k == "input":
        return x
    if k == "const":
        return t[1]
    if k == "mul":
        return ev(t[1], x) * ev(t[2], x)
    if k == "div":
        return ev(t[1], x) / ev(t[2], x)
    if k == "add":
        return ev(t[1], x) + ev(t[2], x)
    if k == "sub":
        return ev(t[1], x) - ev(t[2], x)
    if k == "min":
        return min(ev(t[1], x), ev(t[2], x))
    if k == "max":
        return max(ev(t[1], x), ev(t[2], x))
    if k == "i2f":
        return float(ev(t[1], x))
    if k == "round":
        v = ev(t[1], x)
        return math.floor(abs(v) + 0.5) * (1 if v >= 0 else -1) if abs(v) < 2 ** 52 else v
    if k == "trunc":
        return float(math.trunc(ev(t[1], x)))
    if k == "floor":
        return float(math.floor(ev(t[1], x)))
    if k == "ceil":
        return float(math.ceil(ev(t[1], x)))
    if k == "f2i":
        v = ev(t[1], x)
        if v != v:
            return 0
        return max(-2 ** 31, min(2 ** 31 - 1, int(math.trunc(v))))
    raise E2Error("eval: " + k)


# ---------------------------------------------------------------------------------------------
# SMT encodings
# ---------------------------------------------------------------------------------------------

def fp_const(c):
    import struct
    b = struct.unpack(">Q", struct.pack(">d", c))[0]
    return f"(fp #b{b >> 63:01b} #b{(b >> 52) & 0x7ff:011b} #b{b & ((1 << 52) - 1):052b})"


def smt_fp(t, inp):
    """bit-precise: returns SMT term; sort Float64 for float nodes, (_ BitVec 32) for f2i"""
    k = t[0]
    if k == "input":
        return inp
    if k == "const":
        return fp_const(t[1])
    if k in ("mul", "div", "add", "sub"):
        return f"(fp.{k} RNE {smt_fp(t[1], inp)} {smt_fp(t[2], inp)})"
    if k in ("min", "max"):
        return f"(fp.{k} {smt_fp(t[1], inp)} {smt_fp(t[2], inp)})"
    if k == "i2f":
        return f"((_ to_fp 11 53) RNE {smt_fp(t[1], inp)})"        # from signed bit-vector
    if k == "round":
        return f"(fp.roundToIntegral RNA {smt_fp(t[1], inp)})"
    if k == "trunc":
        return f"(fp.roundToIntegral RTZ {smt_fp(t[1], inp)})"
    if k == "floor":
        return f"(fp.roundToIntegral RTN {smt_fp(t[1], inp)})"
    if k == "ceil":
        return f"(fp.roundToIntegral RTP {smt_fp(t[1], inp)})"
    if k == "f2i":
        a = smt_fp(t[1], inp)
        lo, hi = fp_const(-2147483648.0), fp_const(2147483647.0)
        return (f"(ite (fp.isNaN {a}) #x00000000 (ite (fp.leq {a} {lo}) #x80000000 (ite (fp.geq {a} {hi}) #x7fffffff "
                f"((_ fp.to_sbv 32) RTZ {a}))))")
    raise E2Error("smt_fp: " + k)


class RealEnc:
    """reals + rounding-error lemma; every floor is a fresh Int k with k <= y < k+1 (linear mixed arithmetic)"""

    def __init__(self):
        self.decls, self.asserts, self.n = [], [], 0

    def fresh(self, sort="Real"):
        self.n += 1
        s = f"{'r' if sort == 'Real' else 'k'}{self.n}"
        self.decls.append(f"(declare-const {s} {sort})")
        return s

    def rnd(self, exact):
        ex = self.fresh()
        self.asserts.append(f"(= {ex} {exact})")
        ab = self.fresh()
        self.asserts.append(f"(= {ab} (ite (>= {ex} 0.0) {ex} (- {ex})))")
        r = self.fresh()
        # |r - exact| <= 2^-53 * |exact|
        self.asserts.append(f"(and (<= (- {r} {ex}) (* eps {ab})) (<= (- {ex} {r}) (* eps {ab})))")
        return r

    def floor(self, y):
        k = self.fresh("Int")
        self.asserts.append(f"(and (<= (to_real {k}) {y}) (< {y} (+ (to_real {k}) 1.0)))")
        return k

    def name(self, term, sort="Real"):
        v = self.fresh(sort)
        self.asserts.append(f"(= {v} {term})")
        return v

    def trunc_int(self, a):
        kp = self.floor(a)
        kn = self.floor(f"(- {a})")
        return self.name(f"(ite (>= {a} 0.0) {kp} (- {kn}))", "Int")

    def term(self, t, inp, inp_is_int):
        k = t[0]
        if k == "input":
            return f"(to_real {inp})" if inp_is_int else inp
        if k == "const":
            from fractions import Fraction
            fr = Fraction(t[1])
            return f"(/ {fr.numerator}.0 {fr.denominator}.0)" if fr >= 0 else f"(- (/ {-fr.numerator}.0 {fr.denominator}.0))"
        if k in ("mul", "div", "add", "sub"):
            a, b = self.term(t[1], inp, inp_is_int), self.term(t[2], inp, inp_is_int)
            if k == "mul" and t[1][0] != "const" and t[2][0] != "const":
                raise E2Error("symbolic x symbolic multiplication is not supported")
            if k == "div" and t[2][0] != "const":
                raise E2Error("division by a non-constant is not supported")
            op = {"mul": "*", "div": "/", "add": "+", "sub": "-"}[k]
            return self.rnd(f"({op} {a} {b})")
        if k in ("min", "max"):
            a, b = self.name(self.term(t[1], inp, inp_is_int)), self.name(self.term(t[2], inp, inp_is_int))
            return f"(ite ({'<=' if k == 'min' else '>='} {a} {b}) {a} {b})"
        if k == "i2f":
            return self.term(t[1], inp, inp_is_int)          # |i32| < 2^53: exact
        a = self.name(self.term(t[1], inp, inp_is_int))
        if k == "round":      # half away from zero
            kp = self.floor(f"(+ {a} 0.5)")
            kn = self.floor(f"(+ (- {a}) 0.5)")
            return f"(to_real {self.name(f'(ite (>= {a} 0.0) {kp} (- {kn}))', 'Int')})"
        if k == "trunc":
            return f"(to_real {self.trunc_int(a)})"
        if k == "floor":
            return f"(to_real {self.floor(a)})"
        if k == "ceil":
            return f"(to_real (- {self.floor(f'(- {a})')}))"
        if k == "f2i":
            tr = self.trunc_int(a)
            return f"(to_real {self.name(f'(ite (<= {tr} (- 2147483648)) (- 2147483648) (ite (>= {tr} 2147483647) 2147483647 {tr}))', 'Int')})"
        raise E2Error("real: " + k)


def run_solver(bin_args, text, timeout):
    t0 = time.time()
    try:
        p = subprocess.run(bin_args, input=text, stdout=subprocess.PIPE, stderr=subprocess.STDOUT, text=True, timeout=timeout)
        out = p.stdout
    except subprocess.TimeoutExpired:
        return "timeout", "", time.time() - t0
    if "(error" in out:
        return "error", out, time.time() - t0
    first = out.strip().splitlines()[0] if out.strip() else ""
    return first if first in ("sat", "unsat", "unknown") else "error", out, time.time() - t0


def both(text, timeout):
    def one(args):
        r = run_solver(args, text + "(check-sat)\n", timeout + 5)
        if r[0] == "sat":
            r2 = run_solver(args, text + "(check-sat)\n(get-model)\n", timeout + 5)
            if r2[0] == "sat":
                return r2
        return r
    rz = one(["z3-new", "-in", f"-T:{timeout}"])
    rc = one(["cvc5", "--lang", "smt2", f"--tlimit={timeout * 1000}", "--produce-models"])
    return rz, rc


def model_int(out, name):
    m = re.search(r"\(define-fun " + name + r" \(\) Int\s+\(?(-?\s*\d+)\)?\)", out.replace("(- ", "-"))
    if m:
        return int(m.group(1).replace(" ", ""))
    m = re.search(r"\(define-fun " + name + r" \(\) \(_ BitVec 32\)\s+#x([0-9a-f]{8})\)", out)
    if m:
        v = int(m.group(1), 16)
        return v - (1 << 32) if v >= (1 << 31) else v
    return None
