//! Reference ("ref") encoders/decoders written from the PMTiles v3 specification with plain
//! arrays and loops. No function of the crate under test is called from here.

/// first tile ID of zoom z: (4^z - 1) / 3
pub fn base(z: u8) -> u64 {
    // closed form, computed in u128 so z = 32 is representable
    (((1u128 << (2 * (z as u32))) - 1) / 3) as u64
}

/// PMTiles v3 spec, "zxy_to_tileid": acc = sum_{t<z} 4^t ; Hilbert d by rotate/flip from the top bit down.
pub fn spec_tile_id(z: u8, x: u64, y: u64) -> u64 {
    let mut acc: u64 = 0;
    let mut t: u8 = 0;
    while t < z {
        acc += 1u64 << (2 * (t as u32));
        t += 1;
    }
    let mut tx = x;
    let mut ty = y;
    let mut d: u64 = 0;
    let mut k: u8 = z;
    while k > 0 {
        k -= 1;
        let s: u64 = 1u64 << k;
        let rx: u64 = if (tx & s) != 0 { 1 } else { 0 };
        let ry: u64 = if (ty & s) != 0 { 1 } else { 0 };
        d += ((3 * rx) ^ ry) << (2 * (k as u32));
        if ry == 0 {
            if rx == 1 {
                tx = s.wrapping_sub(1).wrapping_sub(tx);
                ty = s.wrapping_sub(1).wrapping_sub(ty);
            }
            let tmp = tx;
            tx = ty;
            ty = tmp;
        }
    }
    acc + d
}

/// canonical LEB128 length of v
pub fn varint_len(v: u64) -> usize {
    let mut n = 1usize;
    let mut x = v >> 7;
    while x != 0 {
        n += 1;
        x >>= 7;
    }
    n
}

/// smallest / largest value whose canonical LEB128 encoding has exactly w bytes
pub fn class_lo(w: usize) -> u64 {
    if w <= 1 { 0 } else { 1u64 << (7 * (w as u32 - 1)) }
}
pub fn class_hi(w: usize) -> u64 {
    if w >= 10 { u64::MAX } else { (1u64 << (7 * w as u32)) - 1 }
}

/// write v as exactly w LEB128 bytes at the (concrete) position pos; returns pos + w
pub fn put_varint_w<const M: usize>(buf: &mut [u8; M], pos: usize, v: u64, w: usize) -> usize {
    let mut i = 0usize;
    while i < w {
        let sh = 7 * i as u32;
        let lo7 = if sh < 64 { ((v >> sh) & 0x7f) as u8 } else { 0 };
        buf[pos + i] = if i + 1 < w { lo7 | 0x80 } else { lo7 };
        i += 1;
    }
    pos + w
}

/// canonical LEB128 at a possibly symbolic position
pub fn put_varint<const M: usize>(buf: &mut [u8; M], pos: usize, v: u64) -> usize {
    let mut p = pos;
    let mut x = v;
    loop {
        let lo7 = (x & 0x7f) as u8;
        x >>= 7;
        if x == 0 {
            buf[p] = lo7;
            p += 1;
            break;
        }
        buf[p] = lo7 | 0x80;
        p += 1;
    }
    p
}

/// LEB128 decode (spec: little endian base 128, at most 10 bytes for 64 bits); None on truncation
pub fn get_varint<const M: usize>(buf: &[u8; M], pos: usize, end: usize) -> Option<(u64, usize)> {
    let mut p = pos;
    let mut v: u64 = 0;
    let mut sh = 0u32;
    let mut i = 0;
    while i < 10 {
        if p >= end {
            return None;
        }
        let b = buf[p];
        p += 1;
        if sh < 64 {
            v |= ((b & 0x7f) as u64) << sh;
        }
        if b & 0x80 == 0 {
            return Some((v, p));
        }
        sh += 7;
        i += 1;
    }
    None
}

#[derive(Clone, Copy, PartialEq, Eq, Debug)]
pub struct REntry {
    pub tile_id: u64,
    pub offset: u64,
    pub length: u32,
    pub run_length: u32,
}

/// Spec encoding of a directory (uncompressed): count, delta IDs, run lengths, lengths, offsets
/// (0 = contiguous with previous entry for i > 0, else offset + 1). Returns the number of bytes.
pub fn ref_encode<const N: usize, const M: usize>(e: &[REntry; N], out: &mut [u8; M]) -> usize {
    let mut p = put_varint(out, 0, N as u64);
    let mut last = 0u64;
    let mut i = 0;
    while i < N {
        p = put_varint(out, p, e[i].tile_id - last);
        last = e[i].tile_id;
        i += 1;
    }
    i = 0;
    while i < N {
        p = put_varint(out, p, e[i].run_length as u64);
        i += 1;
    }
    i = 0;
    while i < N {
        p = put_varint(out, p, e[i].length as u64);
        i += 1;
    }
    i = 0;
    while i < N {
        let v = if i > 0 && e[i].offset == e[i - 1].offset + e[i - 1].length as u64 { 0 } else { e[i].offset + 1 };
        p = put_varint(out, p, v);
        i += 1;
    }
    p
}

/// Width-classed spec encoding: field (col, i) is written with exactly w[col][i] bytes, so every
/// byte position is a compile-time-like constant for symbolic execution. The caller assumes the
/// raw field values lie in the class of their width (canonical encoding) - or not, for hostile images.
/// `raw[col][i]` are the RAW varint values (delta id, run length, length, offset code).
pub fn put_columns<const N: usize, const M: usize>(out: &mut [u8; M], start: usize, raw: &[[u64; N]; 4], w: &[[usize; N]; 4]) -> usize {
    let mut p = put_varint_w(out, start, N as u64, 1);
    let mut c = 0;
    while c < 4 {
        let mut i = 0;
        while i < N {
            p = put_varint_w(out, p, raw[c][i], w[c][i]);
            i += 1;
        }
        c += 1;
    }
    p
}

/// Raw column values of a valid entry list per the spec.
pub fn raw_columns<const N: usize>(e: &[REntry; N]) -> [[u64; N]; 4] {
    let mut raw = [[0u64; N]; 4];
    let mut last = 0u64;
    let mut i = 0;
    while i < N {
        raw[0][i] = e[i].tile_id.wrapping_sub(last);
        last = e[i].tile_id;
        raw[1][i] = e[i].run_length as u64;
        raw[2][i] = e[i].length as u64;
        raw[3][i] = if i > 0 && e[i].offset == e[i - 1].offset.wrapping_add(e[i - 1].length as u64) { 0 } else { e[i].offset.wrapping_add(1) };
        i += 1;
    }
    raw
}

/// Spec lookup in one directory: last entry with tile_id <= t; a tile entry matches if t < tile_id + run_length.
pub fn ref_find<const N: usize>(e: &[REntry; N], n: usize, t: u64) -> Option<usize> {
    let mut best: Option<usize> = None;
    let mut i = 0;
    while i < N {
        if i < n && e[i].run_length > 0 && e[i].tile_id <= t && t - e[i].tile_id < e[i].run_length as u64 {
            if best.is_none() {
                best = Some(i);
            }
        }
        i += 1;
    }
    best
}

/// fixed-width LEB128 decode (w bytes, padded/over-long encodings as written by put_varint_w)
pub fn get_varint_w(buf: &[u8], pos: usize, w: usize) -> u64 {
    let mut v: u64 = 0;
    let mut i = 0;
    while i < w {
        let sh = 7 * i as u32;
        if sh < 64 {
            v |= ((buf[pos + i] & 0x7f) as u64) << sh;
        }
        i += 1;
    }
    v
}

/// Spec decoding of a directory image of exactly N entries in the fixed layout `w` (bytes per column).
/// None if the count byte is not N, a length is 0, or an id/offset computation leaves u64.
pub fn ref_decode_fixed<const N: usize>(buf: &[u8], w: &[usize; 4]) -> Option<[REntry; N]> {
    if buf[0] as usize != N {
        return None;
    }
    let mut e = [REntry { tile_id: 0, offset: 0, length: 0, run_length: 0 }; N];
    let mut p = 1usize;
    let mut last: u64 = 0;
    let mut i = 0;
    while i < N {
        let d = get_varint_w(buf, p, w[0]);
        p += w[0];
        match last.checked_add(d) { Some(x) => last = x, None => return None }
        e[i].tile_id = last;
        i += 1;
    }
    i = 0;
    while i < N {
        e[i].run_length = get_varint_w(buf, p, w[1]) as u32;
        p += w[1];
        i += 1;
    }
    i = 0;
    while i < N {
        let l = get_varint_w(buf, p, w[2]);
        p += w[2];
        if l == 0 || l > u32::MAX as u64 { return None; }
        e[i].length = l as u32;
        i += 1;
    }
    i = 0;
    while i < N {
        let c = get_varint_w(buf, p, w[3]);
        p += w[3];
        if c == 0 {
            if i == 0 { return None; }
            match e[i - 1].offset.checked_add(e[i - 1].length as u64) { Some(x) => e[i].offset = x, None => return None }
        } else {
            e[i].offset = c - 1;
        }
        i += 1;
    }
    Some(e)
}
