//! Verification-only streams over fixed byte arrays and the root-budget indirection.
//! Compiled into the scratch overlay only; nothing of this exists in /repo.
use std::io::{Error, ErrorKind, Read, Result, Seek, SeekFrom, Write};

/// 0 = use the crate's real constant. Harnesses for the leaf-spill logic set a small budget.
pub static mut ROOT_BUDGET: u64 = 0;

#[inline]
pub fn root_budget(real: u16) -> u64 {
    let b = unsafe { ROOT_BUDGET };
    if b == 0 {
        u64::from(real)
    } else {
        b
    }
}

#[cfg(any(kani, verif_replay))]
#[cfg(verif_replay)]
use crate::verif_kani as kani;

/// Transfer-size schedule: every read/write moves `k` bytes with 1 <= k <= requested, k chosen freshly.
#[cfg(any(kani, verif_replay))]
#[inline]
fn frag_len(on: bool, n: usize) -> usize {
    if on && n > 1 {
        let k: usize = kani::any();
        kani::assume(k >= 1 && k <= n);
        k
    } else {
        n
    }
}

/// Reader over a fixed array held by reference. `len` = logical end of file.
#[cfg(any(kani, verif_replay))]
pub struct FixR<'a, const N: usize> {
    pub buf: &'a [u8; N],
    pub len: u64,
    pub pos: u64,
    /// number of operations performed so far
    pub ops: u32,
    /// operations with index >= fail_from fail (u32::MAX = never)
    pub fail_from: u32,
    /// every operation that touches or targets a position >= fail_pos fails (u64::MAX = never): a fault placed by
    /// stream position rather than by operation index, so that it hits the same section in builds whose
    /// operation counts differ (stubbed vs real parser)
    pub fail_pos: u64,
    pub failed: bool,
    pub frag: bool,
    /// lowest / highest+1 byte touched by reads in window A and B (two windows: before/after `mark`)
    pub lo: u64,
    pub hi: u64,
    /// bytes inside [forbid_lo, forbid_hi) must never be read
    pub forbid_lo: u64,
    pub forbid_hi: u64,
    pub touched_forbidden: bool,
}

#[cfg(any(kani, verif_replay))]
impl<'a, const N: usize> FixR<'a, N> {
    pub fn new(buf: &'a [u8; N], len: u64) -> Self {
        Self { buf, len, pos: 0, ops: 0, fail_from: u32::MAX, fail_pos: u64::MAX, failed: false, frag: false, lo: u64::MAX, hi: 0,
               forbid_lo: 0, forbid_hi: 0, touched_forbidden: false }
    }
    fn op(&mut self) -> Result<()> {
        let k = self.ops;
        self.ops += 1;
        if k >= self.fail_from {
            self.failed = true;
            return Err(Error::from(ErrorKind::Other));
        }
        Ok(())
    }
}

#[cfg(any(kani, verif_replay))]
impl<'a, const N: usize> Read for FixR<'a, N> {
    fn read(&mut self, out: &mut [u8]) -> Result<usize> {
        self.op()?;
        if self.fail_pos != u64::MAX && self.pos >= self.fail_pos {
            self.failed = true;
            return Err(Error::from(ErrorKind::Other));
        }
        let avail = if self.pos < self.len { (self.len - self.pos) as usize } else { 0 };
        let want = if out.len() < avail { out.len() } else { avail };
        let n = frag_len(self.frag, want);
        let p = self.pos as usize;
        let mut i = 0usize;
        while i < n {
            out[i] = self.buf[p + i];
            i += 1;
        }
        if n > 0 {
            if self.pos < self.lo { self.lo = self.pos; }
            if self.pos + n as u64 > self.hi { self.hi = self.pos + n as u64; }
            if self.pos < self.forbid_hi && self.pos + (n as u64) > self.forbid_lo { self.touched_forbidden = true; }
        }
        self.pos += n as u64;
        Ok(n)
    }
    fn read_exact(&mut self, out: &mut [u8]) -> Result<()> {
        if self.frag {
            struct ViaDefault<'x, 'a, const N: usize>(&'x mut FixR<'a, N>);
            impl<'x, 'a, const N: usize> Read for ViaDefault<'x, 'a, N> {
                fn read(&mut self, o: &mut [u8]) -> Result<usize> { self.0.read(o) }
            }
            ViaDefault(self).read_exact(out)
        } else {
            self.read_exact_whole(out)
        }
    }
}

#[cfg(any(kani, verif_replay))]
impl<'a, const N: usize> FixR<'a, N> {
    /// non-fragmenting fast path used by `read_exact`
    fn read_exact_whole(&mut self, out: &mut [u8]) -> Result<()> {
        let avail = if self.pos < self.len { (self.len - self.pos) as usize } else { 0 };
        if out.len() > avail {
            // what std's read_exact loop ends in: partial reads, then Ok(0) => UnexpectedEof
            let _ = self.read(out)?;
            return Err(Error::from(ErrorKind::UnexpectedEof));
        }
        match self.read(out) {
            Ok(_) => Ok(()),
            Err(e) => Err(e),
        }
    }
}

#[cfg(any(kani, verif_replay))]
impl<'a, const N: usize> Seek for FixR<'a, N> {
    fn seek(&mut self, s: SeekFrom) -> Result<u64> {
        self.op()?;
        let target = match s {
            SeekFrom::Start(p) => p,
            SeekFrom::Current(d) => (self.pos as i64).wrapping_add(d) as u64,
            SeekFrom::End(d) => (self.len as i64).wrapping_add(d) as u64,
        };
        if self.fail_pos != u64::MAX && target >= self.fail_pos {
            self.failed = true;
            return Err(Error::from(ErrorKind::Other));
        }
        self.pos = target;
        Ok(self.pos)
    }
}

/// Writer over a fixed array held by reference (separate object from the position).
#[cfg(any(kani, verif_replay))]
pub struct FixW<'a, const N: usize> {
    pub buf: &'a mut [u8; N],
    pub pos: u64,
    pub end: u64,
    pub ops: u32,
    pub fail_from: u32,
    pub failed: bool,
    pub frag: bool,
    /// index of the last write operation and its start position / length
    pub last_write_op: u32,
    pub last_write_pos: u64,
    pub last_write_len: u64,
    /// lowest position written by any operation other than the last one is tracked in `lo_before`
    pub writes: u32,
    /// lowest start position of any write so far, and the same excluding the most recent write
    pub min_pos: u64,
    pub min_pos_prev: u64,
    /// flush count
    pub flushes: u32,
}

#[cfg(any(kani, verif_replay))]
impl<'a, const N: usize> FixW<'a, N> {
    pub fn new(buf: &'a mut [u8; N], pos: u64) -> Self {
        Self { buf, pos, end: pos, ops: 0, fail_from: u32::MAX, failed: false, frag: false, last_write_op: 0,
               last_write_pos: 0, last_write_len: 0, writes: 0, min_pos: u64::MAX, min_pos_prev: u64::MAX, flushes: 0 }
    }
    fn op(&mut self) -> Result<()> {
        let k = self.ops;
        self.ops += 1;
        if k >= self.fail_from {
            self.failed = true;
            return Err(Error::from(ErrorKind::Other));
        }
        Ok(())
    }
}

#[cfg(any(kani, verif_replay))]
impl<'a, const N: usize> Write for FixW<'a, N> {
    fn write(&mut self, data: &[u8]) -> Result<usize> {
        self.op()?;
        let n = frag_len(self.frag, data.len());
        let p = self.pos as usize;
        assert!(p + n <= N, "verif_io: FixW capacity exceeded (harness bound)");
        let mut i = 0usize;
        while i < n {
            self.buf[p + i] = data[i];
            i += 1;
        }
        self.min_pos_prev = self.min_pos;
        if n > 0 && self.pos < self.min_pos { self.min_pos = self.pos; }
        self.last_write_op = self.ops - 1;
        self.last_write_pos = self.pos;
        self.last_write_len = n as u64;
        self.writes += 1;
        self.pos += n as u64;
        if self.pos > self.end { self.end = self.pos; }
        Ok(n)
    }
    /// A stream that accepts every byte it is offered (frag off) completes `write_all` with one
    /// `write`; with a fragmenting schedule the standard library's own default `write_all` loop runs.
    fn write_all(&mut self, data: &[u8]) -> Result<()> {
        if self.frag {
            struct ViaDefault<'x, 'a, const N: usize>(&'x mut FixW<'a, N>);
            impl<'x, 'a, const N: usize> Write for ViaDefault<'x, 'a, N> {
                fn write(&mut self, d: &[u8]) -> Result<usize> { self.0.write(d) }
                fn flush(&mut self) -> Result<()> { self.0.flush() }
            }
            ViaDefault(self).write_all(data)
        } else {
            match self.write(data) {
                Ok(_) => Ok(()),
                Err(e) => Err(e),
            }
        }
    }
    fn flush(&mut self) -> Result<()> {
        self.op()?;
        self.flushes += 1;
        Ok(())
    }
}

#[cfg(any(kani, verif_replay))]
impl<'a, const N: usize> Seek for FixW<'a, N> {
    fn seek(&mut self, s: SeekFrom) -> Result<u64> {
        self.op()?;
        match s {
            SeekFrom::Start(p) => self.pos = p,
            SeekFrom::Current(d) => self.pos = (self.pos as i64).wrapping_add(d) as u64,
            SeekFrom::End(d) => self.pos = (self.end as i64).wrapping_add(d) as u64,
        }
        Ok(self.pos)
    }
}
