//! Verification-only model of the std hash containers: a fixed-capacity association list.
//! All array accesses use constant indices (conditional updates inside constant-bound loops),
//! so that CBMC's constant propagation of the surrounding struct survives symbolic keys.
use std::marker::PhantomData;
#[cfg(verif_replay)]
use crate::verif_kani as kani;

pub const CAP: usize = 4;

pub struct HashMap<K, V, S = ()> {
    slots: [Option<(K, V)>; CAP],
    n: usize,
    _s: PhantomData<S>,
}

impl<K, V, S> Default for HashMap<K, V, S> {
    fn default() -> Self {
        Self { slots: [None, None, None, None], n: 0, _s: PhantomData }
    }
}

impl<K, V, S> std::fmt::Debug for HashMap<K, V, S> {
    fn fmt(&self, _f: &mut std::fmt::Formatter<'_>) -> std::fmt::Result { Ok(()) }
}

impl<K: Eq, V, S> HashMap<K, V, S> {
    pub fn insert(&mut self, k: K, v: V) -> Option<V> {
        let mut kv = Some((k, v));
        let mut old: Option<(K, V)> = None;
        let mut i = 0;
        while i < CAP {
            if i < self.n {
                let hit = match (&self.slots[i], &kv) {
                    (Some((kk, _)), Some((k2, _))) => kk == k2,
                    _ => false,
                };
                if hit {
                    old = self.slots[i].take();
                    self.slots[i] = kv.take();
                }
            }
            i += 1;
        }
        if kv.is_some() {
            assert!(self.n < CAP, "verif_model: capacity exceeded");
            let mut j = 0;
            while j < CAP {
                if j == self.n && kv.is_some() { self.slots[j] = kv.take(); }
                j += 1;
            }
            self.n += 1;
        }
        old.map(|(_, v)| v)
    }
    pub fn get(&self, k: &K) -> Option<&V> {
        let mut out: Option<&V> = None;
        let mut i = 0;
        while i < CAP {
            if i < self.n {
                if let Some((kk, v)) = &self.slots[i] {
                    if kk == k { out = Some(v); }
                }
            }
            i += 1;
        }
        out
    }
    pub fn get_mut(&mut self, k: &K) -> Option<&mut V> {
        let n = self.n;
        let mut out: Option<&mut V> = None;
        let mut i = 0;
        for s in self.slots.iter_mut() {
            if i < n {
                if let Some((kk, v)) = s {
                    if *kk == *k { out = Some(v); }
                }
            }
            i += 1;
        }
        out
    }
    pub fn remove(&mut self, k: &K) -> Option<V> {
        let mut old: Option<(K, V)> = None;
        let mut i = 0;
        while i < CAP {
            if i < self.n && old.is_none() {
                let hit = match &self.slots[i] { Some((kk, _)) => kk == k, None => false };
                if hit { old = self.slots[i].take(); }
            }
            i += 1;
        }
        if old.is_some() {
            // move the last element into the hole (dense prefix)
            self.n -= 1;
            let mut last: Option<(K, V)> = None;
            let mut j = 0;
            while j < CAP {
                if j == self.n { last = self.slots[j].take(); }
                j += 1;
            }
            let mut j = 0;
            while j < CAP {
                if j < self.n && self.slots[j].is_none() && last.is_some() { self.slots[j] = last.take(); }
                j += 1;
            }
        }
        old.map(|(_, v)| v)
    }
    pub fn len(&self) -> usize { self.n }
    pub fn is_empty(&self) -> bool { self.n == 0 }
    pub fn contains_key(&self, k: &K) -> bool { self.get(k).is_some() }
    pub fn entry(&mut self, k: K) -> Entry<'_, K, V, S> { Entry { m: self, k } }
    pub fn keys(&self) -> std::vec::IntoIter<&K> {
        let mut v = Vec::with_capacity(CAP);
        let mut i = 0;
        while i < CAP {
            if i < self.n { if let Some((k, _)) = &self.slots[i] { v.push(k); } }
            i += 1;
        }
        v.into_iter()
    }
}

pub struct Entry<'a, K, V, S> { m: &'a mut HashMap<K, V, S>, k: K }

/// General-purpose entry API (used by code under test that the pinned tree does not contain, e.g. edited trees):
/// hands out a `&mut` into the matching slot, which is correct but costs symex its constant propagation.
impl<'a, K: Eq + Copy, V, S> Entry<'a, K, V, S> {
    pub fn or_insert_with<F: FnOnce() -> V>(self, f: F) -> &'a mut V {
        if !self.m.contains_key(&self.k) {
            self.m.insert(self.k, f());
        }
        self.m.get_mut(&self.k).unwrap()
    }
    pub fn or_insert(self, v: V) -> &'a mut V {
        self.or_insert_with(|| v)
    }
}

/// Proxy returned by `entry(k).or_default()` when the value is a set: it never materialises a
/// `&mut` to a symbolically chosen slot; every update is a conditional update at a constant index.
pub struct SetRef<'a, K, T, S, S2> { mp: *mut HashMap<K, HashSet<T, S2>, S>, k: K, _l: PhantomData<&'a mut ()> }

impl<'a, K: Eq + Copy, T: Eq, S, S2> Entry<'a, K, HashSet<T, S2>, S> {
    pub fn or_default(self) -> SetRef<'a, K, T, S, S2> {
        if !self.m.contains_key(&self.k) { self.m.insert(self.k, HashSet::default()); }
        SetRef { mp: self.m as *mut _, k: self.k, _l: PhantomData }
    }
}
impl<'a, K: Eq + Copy, T: Eq, S, S2> SetRef<'a, K, T, S, S2> {
    pub fn insert(&self, x: T) -> bool {
        let m = unsafe { &mut *self.mp };
        let mut xo = Some(x);
        let mut r = false;
        let mut i = 0;
        while i < CAP {
            if i < m.n {
                if let Some((kk, set)) = &mut m.slots[i] {
                    if *kk == self.k { if let Some(x) = xo.take() { r = set.insert(x); } }
                }
            }
            i += 1;
        }
        r
    }
    pub fn remove(&self, x: &T) -> bool {
        let m = unsafe { &mut *self.mp };
        let mut r = false;
        let mut i = 0;
        while i < CAP {
            if i < m.n {
                if let Some((kk, set)) = &mut m.slots[i] {
                    if *kk == self.k { r = set.remove(x); }
                }
            }
            i += 1;
        }
        r
    }
    pub fn is_empty(&self) -> bool {
        let m = unsafe { &*self.mp };
        let mut r = true;
        let mut i = 0;
        while i < CAP {
            if i < m.n {
                if let Some((kk, set)) = &m.slots[i] {
                    if *kk == self.k { r = set.is_empty(); }
                }
            }
            i += 1;
        }
        r
    }
}

impl<K, V, S> IntoIterator for HashMap<K, V, S> {
    type Item = (K, V);
    type IntoIter = std::vec::IntoIter<(K, V)>;
    fn into_iter(mut self) -> Self::IntoIter {
        // arbitrary iteration order: symbolic permutation; the number of pushes is self.n
        let mut v: Vec<(K, V)> = Vec::with_capacity(CAP);
        let mut taken = [false; CAP];
        let mut j = 0;
        while j < CAP {
            if j < self.n {
                let p: usize = kani::any();
                kani::assume(p < self.n);
                let mut out: Option<(K, V)> = None;
                let mut i = 0;
                while i < CAP {
                    if i == p { kani::assume(!taken[i]); taken[i] = true; out = self.slots[i].take(); }
                    i += 1;
                }
                v.push(out.unwrap());
            }
            j += 1;
        }
        v.into_iter()
    }
}

pub struct HashSet<K, S = ()> { m: HashMap<K, (), S> }
impl<K, S> Default for HashSet<K, S> { fn default() -> Self { Self { m: HashMap::default() } } }
impl<K, S> std::fmt::Debug for HashSet<K, S> {
    fn fmt(&self, _f: &mut std::fmt::Formatter<'_>) -> std::fmt::Result { Ok(()) }
}
impl<K: Eq, S> HashSet<K, S> {
    pub fn insert(&mut self, k: K) -> bool { self.m.insert(k, ()).is_none() }
    pub fn remove(&mut self, k: &K) -> bool { self.m.remove(k).is_some() }
    pub fn is_empty(&self) -> bool { self.m.is_empty() }
    pub fn len(&self) -> usize { self.m.len() }
}
