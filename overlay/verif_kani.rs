//! Replay shim: in the native replay build (`--cfg verif_replay`) the harness modules see this
//! module under the name `kani`. `any()` returns the values the solver produced (read from the
//! JSON file named by $VERIF_VALUES, in the order CBMC's trace lists the `kani::any_raw_*` results);
//! a violated `assume` means the recorded values are not a valid run of this harness.
#![cfg(verif_replay)]
use std::cell::RefCell;

thread_local! {
    static VALUES: RefCell<Option<std::vec::IntoIter<u128>>> = RefCell::new(None);
}

fn load() -> std::vec::IntoIter<u128> {
    let mut out = Vec::new();
    if let Ok(p) = std::env::var("VERIF_VALUES") {
        if let Ok(txt) = std::fs::read_to_string(p) {
            // minimal scan: every "value": "<digits>" in order
            let mut rest = txt.as_str();
            while let Some(i) = rest.find("\"value\"") {
                rest = &rest[i + 7..];
                let digits: String = rest
                    .chars()
                    .skip_while(|c| !c.is_ascii_digit())
                    .take_while(|c| c.is_ascii_digit())
                    .collect();
                if let Ok(v) = digits.parse::<u128>() {
                    out.push(v);
                }
            }
        }
    }
    out.into_iter()
}

fn next() -> u128 {
    VALUES.with(|v| {
        let mut v = v.borrow_mut();
        if v.is_none() {
            *v = Some(load());
        }
        v.as_mut().and_then(Iterator::next).unwrap_or(0)
    })
}

pub trait ReplayAny {
    fn from_raw(v: u128) -> Self;
}
macro_rules! impl_any {
    ($($t:ty),*) => { $(impl ReplayAny for $t { fn from_raw(v: u128) -> Self { v as $t } })* };
}
impl_any!(u8, u16, u32, u64, usize, i8, i16, i32, i64, isize, u128);
impl ReplayAny for bool {
    fn from_raw(v: u128) -> Self {
        v & 1 == 1
    }
}

pub fn any<T: ReplayAny>() -> T {
    T::from_raw(next())
}

pub fn assume(c: bool) {
    if !c {
        eprintln!("VERIF_REPLAY_ASSUME_VIOLATED");
        std::process::exit(77);
    }
}

macro_rules! cover {
    ($($t:tt)*) => {};
}
pub(crate) use cover;
