#!/bin/bash
# runs every claimed check's thorough command sequentially; summary in $1 (default /tmp/allt)
OUT=${1:-/tmp/allt}; mkdir -p $OUT
for p in ${PROPS:-C05 C19 C13 C11 C03 C08 C04 C10 C06 C07 C16 C02 C15 C17 C18 C20 C09}; do
  s=$(date +%s)
  ./check run $p --tier thorough > $OUT/$p.log 2>&1
  rc=$?
  echo "$p rc=$rc wall=$(( $(date +%s) - s ))s $(tail -1 $OUT/$p.log)" | tee -a $OUT/summary.txt
done
