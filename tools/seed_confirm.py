#!/usr/bin/env python3
"""Confirm a sub-agent's mutant in its scratch worktree and import it to /verif/seeded/<id>/.
usage: seed_confirm.py <worktree> <mN> <seed-id> <property>"""
import json, os, shutil, subprocess, sys, re
wt, m, sid, prop = sys.argv[1:5]
src = os.path.join(wt, "MUTANT", m)
env = dict(os.environ, CARGO_TARGET_DIR=os.path.join(wt, "target"), CARGO_NET_OFFLINE="true")
def run(cmd):
    p = subprocess.run(cmd, cwd=wt, env=env, stdout=subprocess.PIPE, stderr=subprocess.STDOUT, text=True)
    return p.returncode, p.stdout
def git(*a): return subprocess.run(["git", "-C", wt] + list(a), stdout=subprocess.PIPE, stderr=subprocess.STDOUT, text=True)
git("checkout", "--", "src")
shutil.rmtree(os.path.join(wt, "tests"), ignore_errors=True)
os.makedirs(os.path.join(wt, "tests"))
shutil.copy(os.path.join(src, "demo.rs"), os.path.join(wt, "tests", "demo_seed.rs"))
feat = ["--features", "async"] if "futures" in open(os.path.join(src, "demo.rs")).read() and "cfg(feature" not in open(os.path.join(src, "demo.rs")).read() else []
res = {}
rc, out = run(["cargo", "test", "--offline", "--test", "demo_seed"] + feat)
res["demo_on_clean"] = "pass" if rc == 0 else "FAIL"
a = git("apply", os.path.join(src, "patch.diff"))
res["patch_applies"] = a.returncode == 0
rc, out = run(["cargo", "test", "--offline", "--lib", "--no-fail-fast"])
m1 = re.search(r"test result: (\w+)\. (\d+) passed; (\d+) failed", out)
res["suite_lib_with_mutant"] = m1.group(0) if m1 else out[-300:]
rc_d, out_d = run(["cargo", "test", "--offline", "--doc"])
m2 = re.search(r"test result: (\w+)\. (\d+) passed; (\d+) failed", out_d)
res["suite_doc_with_mutant"] = m2.group(0) if m2 else out_d[-300:]
rc2, out2 = run(["cargo", "test", "--offline", "--test", "demo_seed"] + feat)
res["demo_with_mutant"] = "fail" if rc2 != 0 else "PASS(not detected by demo)"
fails = re.findall(r"panicked at [^\n]*\n[^\n]*", out2)[:2]
res["demo_failure"] = fails
rc3, out3 = run(["cargo", "build", "--offline", "--features", "async"])
res["builds_with_async"] = rc3 == 0
git("checkout", "--", "src")
shutil.rmtree(os.path.join(wt, "tests"), ignore_errors=True)
ok = res["demo_on_clean"] == "pass" and res["patch_applies"] and res["demo_with_mutant"] == "fail" and "ok. 51 passed; 0 failed" in res["suite_lib_with_mutant"] and "0 failed" in res["suite_doc_with_mutant"] and res["builds_with_async"]
res["confirmed"] = ok
dst = os.path.join("/verif/seeded", sid)
os.makedirs(dst, exist_ok=True)
for f in ("patch.diff", "demo.rs", "notes.md"):
    shutil.copy(os.path.join(src, f), os.path.join(dst, f))
meta = {"id": sid, "property": prop, "source": "independent sub-agent given only the property text and a scratch worktree",
        "needs_to_manifest": "see notes.md", "confirmation": res,
        "confirmation_cmds": ["cargo test --offline --test demo_seed (clean tree)", "git apply patch.diff", "cargo test --offline --lib; cargo test --offline --doc", "cargo test --offline --test demo_seed", "cargo build --offline --features async"]}
json.dump(meta, open(os.path.join(dst, "meta.json"), "w"), indent=1)
print(sid, "CONFIRMED" if ok else "NOT CONFIRMED", json.dumps(res)[:400])
