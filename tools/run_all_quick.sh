#!/bin/bash
# runs every claimed check's quick command in /verif against /repo, sequentially; log per check in /tmp/allq/
mkdir -p /tmp/allq
cd /verif
for p in $(python3 -c "import json;print(' '.join(c['property_id'] for c in json.load(open('MANIFEST.json'))['checks']))"); do
  s=$(date +%s)
  ./check run $p --tier quick > /tmp/allq/$p.log 2>&1
  rc=$?
  echo "$p rc=$rc wall=$(( $(date +%s) - s ))s $(tail -1 /tmp/allq/$p.log)" | tee -a /tmp/allq/summary.txt
done
