#!/bin/bash
# usage: seed_eval.sh <seed-id> <PROP> [check args...]
# Runs ./check run <PROP> ... against a pristine copy of /repo's working tree with /verif/seeded/<seed-id>/patch.diff
# applied (VERIF_REPO), so that /repo itself is never left modified; appends the verdict to seeded/<seed-id>/runs.log
set -u
SID=$1; P=$2; shift 2
cd /verif
R=$(mktemp -d /var/tmp/seedrepo_XXXX)
rsync -a --exclude target /repo/ $R/
( cd $R && git checkout -q -- . && git apply /verif/seeded/$SID/patch.diff ) || { echo "== $SID APPLY FAILED"; rm -rf $R; exit 9; }
VERIF_REPO=$R VERIF_SCRATCH=/var/tmp ./check run "$P" "$@" > $R.log 2>&1
rc=$?
{ echo "== $SID check=$P $* rc=$rc ($(date -u +%FT%TZ))"; grep -E "^VIOLATION|^  H|^INCONCLUSIVE|^KNOWN|^\[C" $R.log | cut -c1-400; } | tee -a /verif/seeded/$SID/runs.log
rm -rf $R $R.log
