// @common
    use crate::verif_ref::{self as vr, REntry};
    use crate::verif_io::{FixW, ROOT_BUDGET};

    /// N symbolic tile entries whose every encoded field is a 1-byte varint (so encoded sizes are decided by N alone)
    fn small_entries<const N: usize>() -> [REntry; N] { small_entries_mode::<N>(2) }

    /// mode 0: ids and offsets symbolic, lengths and run lengths fixed; mode 1: ids and run lengths symbolic,
    /// lengths fixed, offsets fixed and contiguous (so the offset-elision code 0 is what the encoder must emit);
    /// mode 2: everything symbolic (exceeds 20 GB at N = 4: symbolic lengths are what the solver cannot digest here)
    fn small_entries_mode<const N: usize>(mode: u8) -> [REntry; N] {
        let mut e = small_entries_all::<N>();
        let mut i = 0;
        while i < N {
            if mode == 0 { e[i].length = 3 + i as u32; e[i].run_length = 1; }
            if mode == 1 { e[i].length = 3 + i as u32; e[i].offset = if i == 0 { 2 } else { e[i - 1].offset + e[i - 1].length as u64 }; }
            i += 1;
        }
        e
    }

    fn small_entries_all<const N: usize>() -> [REntry; N] {
        let mut e = [REntry { tile_id: 0, offset: 0, length: 1, run_length: 1 }; N];
        let mut i = 0;
        while i < N {
            e[i].tile_id = kani::any();
            e[i].offset = kani::any();
            e[i].length = kani::any();
            e[i].run_length = kani::any();
            kani::assume(e[i].tile_id < 120 && e[i].offset < 120 && e[i].length >= 1 && e[i].length < 120);
            kani::assume(e[i].run_length >= 1 && e[i].run_length <= 3);
            if i > 0 {
                kani::assume(e[i].tile_id >= e[i - 1].tile_id + e[i - 1].run_length as u64);
                kani::assume(e[i].tile_id - e[i - 1].tile_id < 120);
            }
            i += 1;
        }
        e
    }

    fn to_entries<const N: usize>(e: &[REntry; N]) -> Vec<Entry> {
        let mut v = Vec::with_capacity(N);
        let mut i = 0;
        while i < N {
            v.push(Entry { tile_id: e[i].tile_id, offset: e[i].offset, length: e[i].length, run_length: e[i].run_length });
            i += 1;
        }
        v
    }

    /// The spill harnesses replace `Directory::to_writer` by a FIXED-SHAPE REFERENCE ENCODER (the crate's encoder is
    /// checked byte-for-byte against the same reference under C05): every field of every entry must be a 1-byte
    /// varint (asserted), so a directory of n entries is exactly 1 + 4n bytes, written with one write_all. With
    /// the crate's varint writer the encoded lengths - and with them every stream position in the spill logic -
    /// are symbolic for symex (20 GB exhausted at N = 2). In the native replay the crate's own encoder runs and
    /// produces the same bytes for these values.
    fn stub_to_writer(d: &Directory, output: &mut impl Write, compression: Compression) -> Result<()> {
        if compression != Compression::None {
            return Err(std::io::Error::from(std::io::ErrorKind::Other));
        }
        let n = d.len();
        assert!(n <= 9);
        let mut buf = [0u8; 1 + 4 * 9];
        buf[0] = n as u8;
        let mut last = 0u64;
        let mut i = 0;
        while i < 9 {
            if i < n {
                let en = &d[i];
                if en.length == 0 {
                    return Err(std::io::Error::from(std::io::ErrorKind::InvalidData));
                }
                let delta = en.tile_id - last;
                last = en.tile_id;
                let code = if i > 0 && en.offset == d[i - 1].offset + d[i - 1].length as u64 { 0 } else { en.offset + 1 };
                assert!(delta < 128 && en.run_length < 128 && en.length < 128 && code < 128);
                buf[1 + i] = delta as u8;
                buf[1 + n + i] = en.run_length as u8;
                buf[1 + 2 * n + i] = en.length as u8;
                buf[1 + 3 * n + i] = code as u8;
            }
            i += 1;
        }
        output.write_all(&buf[..1 + 4 * n])
    }

    /// reference decode of entry j of a directory whose fields are all 1-byte varints, located at buf[p..]
    /// (count k at p; columns of k bytes each). Returns (id delta, run, length, offset code).
    fn field(buf: &[u8], p: usize, k: usize, col: usize, j: usize) -> u8 {
        buf[p + 1 + col * k + j]
    }

// @h id=H6.1-N$n-m$m prop=C06,C02 rep="n:0-9" quick="2-5" rep2="m:0-5" quick2="0,3" quick_C02="3-5" cap=900 mem=20 unwind=12 uw="FixW=40;h6_1_spill=40;stub_to_writer=11" stubs="Directory::to_writer -> fixed-shape reference encoder (1-byte fields); MAX_ROOT_DIR_LENGTH comparisons read verif_io::ROOT_BUDGET (13) instead of the real 16257" bounds="N=$n tile entries with 1-byte fields (ids < 120 ascending, run lengths 1..3, lengths/offsets < 120), value mode m%2 (0: ids+offsets symbolic, 1: ids+run lengths symbolic; lengths concrete), root budget 13 bytes (N <= 2 below, N = 3 exactly on the budget, N >= 4 spills; N = 9 spills to a root exactly on the budget), initial leaf size 1 + m/2 in {1,2,3}, start position 3 in a pre-filled stream"
    /// fits => single root directory == spec encoding, empty leaf section; does not fit => root within the budget holding only leaf pointers (first id, running offset, exact length) whose leaves decode to the original entries in order; root written at the original start position
    #[kani::proof]
    #[kani::stub(crate::directory::Directory::to_writer, stub_to_writer)]
    fn h6_1_spill_n$n_m$m() {
        const N: usize = $n;
        const BUDGET: u64 = 13;
        const START: usize = 3;
        let e = small_entries_mode::<N>($m % 2);
        let v = to_entries(&e);
        unsafe { ROOT_BUDGET = BUDGET; }
        let mut out = [0x55u8; 200];
        let mut w = FixW::new(&mut out, START as u64);
        let r = write_directories(&mut w, &v[..], Compression::None, Some(WriteDirsOverflowStrategy::OnlyLeafPointers { start_size: Some(1 + $m / 2) }));
        assert!(r.is_ok());
        let leaves = r.unwrap();
        let pos = w.pos as usize;
        let full_len = 1 + 4 * N;
        // bytes before the start position are untouched
        assert!(out[0] == 0x55 && out[1] == 0x55 && out[2] == 0x55);
        if full_len as u64 <= BUDGET {
            assert!(leaves.len() == 0);
            assert!(pos == START + full_len);
            let mut want = [0u8; 48];
            let m = vr::ref_encode(&e, &mut want);
            assert!(m == full_len);
            let mut i = 0;
            while i < full_len {
                assert!(out[START + i] == want[i]);
                i += 1;
            }
        } else {
            // Expected shape per the documented strategy (leaf size doubled from the initial size until the root of
            // leaf pointers fits): all sizes follow from N, the initial leaf size and the budget, so every index
            // below is a constant; the CONTENT of root and leaves is checked against the entries field by field.
            let mut ls = 1usize + $m / 2;
            while (1 + 4 * ((N + ls - 1) / ls)) as u64 > BUDGET { ls *= 2; }
            let k = (N + ls - 1) / ls;
            let root_len = pos - START;
            assert!(root_len == 1 + 4 * k);
            assert!(root_len as u64 <= BUDGET);
            assert!(out[START] as usize == k);
            let mut off = 0usize;
            let mut last_ptr_id = 0u64;
            let mut j = 0;
            while j < k {
                let lo = j * ls;
                let hi = if lo + ls < N { lo + ls } else { N };
                let c = hi - lo;
                let plen = 1 + 4 * c;
                // pointer j: first tile id, run_length 0, exact length, offset within the leaf section
                let ptr_id = last_ptr_id + field(&out, START, k, 0, j) as u64;
                last_ptr_id = ptr_id;
                assert!(ptr_id == e[lo].tile_id);
                assert!(field(&out, START, k, 1, j) == 0);
                assert!(field(&out, START, k, 2, j) as usize == plen);
                let code = field(&out, START, k, 3, j) as usize;
                let poff = if j > 0 && code == 0 { off } else { code.wrapping_sub(1) };
                assert!(poff == off);
                // leaf j decodes to entries lo..hi
                assert!(off + plen <= leaves.len());
                assert!(leaves[off] as usize == c);
                let mut last = 0u64;
                let mut q = 0;
                while q < c {
                    let id = last + leaves[off + 1 + q] as u64;
                    last = id;
                    let en = &e[lo + q];
                    assert!(id == en.tile_id);
                    assert!(leaves[off + 1 + c + q] as u32 == en.run_length);
                    assert!(leaves[off + 1 + 2 * c + q] as u32 == en.length);
                    let oc = leaves[off + 1 + 3 * c + q] as u64;
                    let eo = if q > 0 && oc == 0 { e[lo + q - 1].offset + e[lo + q - 1].length as u64 } else { oc.wrapping_sub(1) };
                    assert!(eo == en.offset);
                    q += 1;
                }
                off += plen;
                j += 1;
            }
            assert!(off == leaves.len());
        }
        kani::cover!(true);
        kani::cover!(N < 2 || e[1].offset == e[0].offset + e[0].length as u64);
        std::mem::forget(leaves);
        std::mem::forget(v);
    }

// @h id=H6.2 prop=C06,C02 tier=quick cap=120 bounds="the crate's constants as compiled"
    /// the real root budget is 16 KiB minus the 127-byte header, and it is what the comparisons use when no harness override is set
    #[kani::proof]
    fn h6_2_constants() {
        assert!(MAX_ROOT_DIR_LENGTH == 16257);
        assert!(crate::header::HEADER_BYTES == 127);
        unsafe { ROOT_BUDGET = 0; }
        assert!(crate::verif_io::root_budget(MAX_ROOT_DIR_LENGTH) == 16257);
        kani::cover!(true);
    }
