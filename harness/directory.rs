// @common
    use crate::verif_ref::{self as vr, REntry};
    use crate::verif_io::{FixR, FixW};

    /// N symbolic entries, drawn in a fixed order (tile_id, offset, length, run_length per entry)
    fn any_entries<const N: usize>() -> [REntry; N] {
        let mut e = [REntry { tile_id: 0, offset: 0, length: 1, run_length: 0 }; N];
        let mut i = 0;
        while i < N {
            e[i].tile_id = kani::any();
            e[i].offset = kani::any();
            e[i].length = kani::any();
            e[i].run_length = kani::any();
            i += 1;
        }
        e
    }

    /// the property's validity predicate: strictly ascending ids, non-overlapping runs, length >= 1,
    /// ids (with their runs) inside the valid tile-id domain, offsets < 2^62
    fn assume_valid<const N: usize>(e: &[REntry; N]) {
        let top = vr::base(32);
        let mut i = 0;
        while i < N {
            kani::assume(e[i].length >= 1);
            kani::assume(e[i].offset < (1u64 << 62));
            kani::assume(e[i].tile_id < top && (e[i].run_length as u64) <= top - e[i].tile_id);
            if i > 0 {
                let prev_span = if e[i - 1].run_length == 0 { 1 } else { e[i - 1].run_length as u64 };
                kani::assume(e[i].tile_id >= e[i - 1].tile_id + prev_span);
            }
            i += 1;
        }
    }

    fn to_dir<const N: usize>(e: &[REntry; N]) -> Directory {
        let mut v = Vec::with_capacity(N);
        let mut i = 0;
        while i < N {
            v.push(Entry { tile_id: e[i].tile_id, offset: e[i].offset, length: e[i].length, run_length: e[i].run_length });
            i += 1;
        }
        Directory::from(v)
    }

    fn same<const N: usize>(d: &Directory, e: &[REntry; N]) -> bool {
        if d.len() != N { return false; }
        let mut ok = true;
        let mut i = 0;
        while i < N {
            let x = &d[i];
            ok = ok && x.tile_id == e[i].tile_id && x.offset == e[i].offset && x.length == e[i].length && x.run_length == e[i].run_length;
            i += 1;
        }
        ok
    }

    const MAXW: [usize; 4] = [10, 5, 5, 10];

// @h id=H5.2-max-N$n prop=C05,C03 rep="n:0-3" quick="0-2" cap=1500 mem=12 unwind=12 bounds="N=$n entries; every valid entry list (ids < first id of zoom 32, offsets < 2^62, lengths 1..2^32-1, run lengths 0..2^32-1); image = spec encoding with every varint padded to its maximal width (10/5 bytes) so all positions are constant"
    /// the parser decodes the independent encoder's output to the same entries (all field values; over-long varints)
    #[kani::proof]
    fn h5_2_parse_ref_max_n$n() {
        const N: usize = $n;
        let e = any_entries::<N>();
        assume_valid(&e);
        let raw = vr::raw_columns(&e);
        let w = [[MAXW[0]; N], [MAXW[1]; N], [MAXW[2]; N], [MAXW[3]; N]];
        let mut img = [0u8; 1 + 30 * N];
        let len = vr::put_columns(&mut img, 0, &raw, &w);
        assert!(len == 1 + 30 * N);
        let r = Directory::from_bytes(&img[..], Compression::None);
        assert!(r.is_ok());
        let d = r.unwrap();
        assert!(same(&d, &e));
        kani::cover!(N == 0 || e[N - 1].run_length == 0);
        kani::cover!(N < 2 || e[1].offset == e[0].offset + e[0].length as u64);
        kani::cover!(N < 2 || e[1].offset < e[0].offset);
        kani::cover!(N == 0 || e[0].offset == 0);
        kani::cover!(N == 0 || e[0].length == u32::MAX);
        std::mem::forget(d);
    }

// @h id=H8.1-c$c prop=C08 rep="c:0-2" quick="0-1" cap=1500 mem=14 unwind=12 checks=std bounds="count byte = $c, then 4*$c+2 arbitrary raw bytes (every byte string of that shape)"
    /// the directory parser returns (value or error) on arbitrary bytes: no panic, no arithmetic overflow, no out-of-bounds
    #[kani::proof]
    fn h8_1_raw_bytes_c$c() {
        const L: usize = 4 * $c + 2;
        let mut img = [0u8; 1 + L];
        img[0] = $c;
        let mut i = 1;
        while i <= L {
            img[i] = kani::any();
            i += 1;
        }
        let r = Directory::from_bytes(&img[..], Compression::None);
        kani::cover!(r.is_ok());
        kani::cover!($c == 0 || r.is_err());
        std::mem::forget(r);
    }

// @h id=H8.2-N$n prop=C08 rep="n:1-2" quick="1-1" cap=1500 mem=14 unwind=12 checks=std bounds="N=$n entries; every raw varint value in every column (ids/offset codes: any u64; run lengths/lengths: any 35-bit value in 5 bytes), max-width layout"
    /// structured-hostile directory: arbitrary raw column values (id deltas summing past 2^64, offset code 0 anywhere, length 0 or >= 2^32, ...) never crash the parser
    #[kani::proof]
    fn h8_2_hostile_columns_n$n() {
        const N: usize = $n;
        let mut raw = [[0u64; N]; 4];
        let mut c = 0;
        while c < 4 {
            let mut i = 0;
            while i < N {
                raw[c][i] = kani::any();
                i += 1;
            }
            c += 1;
        }
        let w = [[MAXW[0]; N], [MAXW[1]; N], [MAXW[2]; N], [MAXW[3]; N]];
        let mut img = [0u8; 1 + 30 * N];
        vr::put_columns(&mut img, 0, &raw, &w);
        let r = Directory::from_bytes(&img[..], Compression::None);
        kani::cover!(r.is_ok());
        kani::cover!(r.is_err());
        kani::cover!(raw[3][0] == 0);
        kani::cover!(raw[0][0] == u64::MAX);
        kani::cover!(N < 2 || (raw[3][1] == 0 && raw[3][0] == u64::MAX));
        if let Ok(d) = &r {
            // whatever was accepted can be queried and its run expanded without a crash
            let t: u64 = kani::any();
            let f = d.find_entry_for_tile_id(t);
            let rg = d[0].tile_id_range();
            kani::cover!(f.is_some());
            std::mem::forget(rg);
        }
        std::mem::forget(r);
    }

// @h id=H8.3-k$k prop=C08 rep="k:0-5" quick="0,2,4" cap=600 mem=14 unwind=12 uw="from_reader_impl=3" checks=std alloclimit=31 stubs="allocator model: Kani's __rust_alloc/__rust_alloc_zeroed/__rust_realloc plus an assertion that no single request exceeds 2^31 bytes" bounds="entry count = one of {2^63, 2^64-1, 2^40, 2^35, 16385, 3} (10-byte varint), followed by 2 arbitrary bytes; a single allocation request above 2^31 bytes is an assertion failure"
    /// an entry count near 2^64 that is not backed by data is answered with an error: no capacity-overflow panic, no absurd allocation
    #[kani::proof]
    fn h8_3_count_hazard_k$k() {
        const COUNTS: [u64; 6] = [1u64 << 63, u64::MAX, 1u64 << 40, 1u64 << 35, 16385, 3];
        let count: u64 = COUNTS[$k];
        let x0: u8 = kani::any();
        let x1: u8 = kani::any();
        let mut img = [0u8; 12];
        vr::put_varint_w(&mut img, 0, count, 10);
        img[10] = x0;
        img[11] = x1;
        let r = Directory::from_bytes(&img[..], Compression::None);
        assert!(r.is_err());
        kani::cover!(x0 == 0x80 && x1 == 0);
        kani::cover!(x0 == 1);
        std::mem::forget(r);
    }

// @h id=H8.5 prop=C08 tier=quick cap=600 mem=10 unwind=4 checks=std bounds="directory of 2 arbitrary entries (every field any value), any looked-up id"
    /// single-directory lookup and run expansion on arbitrary entries never crash
    #[kani::proof]
    fn h8_5_find_entry_arbitrary() {
        let e = any_entries::<2>();
        let t: u64 = kani::any();
        let d = to_dir(&e);
        let f = d.find_entry_for_tile_id(t);
        if let Some(x) = f {
            assert!(x.run_length > 0 && x.tile_id <= t);
        }
        let r0 = d[0].tile_id_range();
        assert!(r0.start == e[0].tile_id);
        kani::cover!(e[0].tile_id == u64::MAX && e[0].run_length == 2);
        kani::cover!(f.is_some());
        kani::cover!(f.is_none());
        std::mem::forget(d);
    }

// @h id=H3.3-N$n prop=C03 rep="n:1-3" quick="1-3" cap=900 mem=10 unwind=5 bounds="every valid directory of N=$n entries (leaf pointers and tile entries mixed), every looked-up id in u64"
    /// looking an id up in a single directory finds the tile entry whose run covers it and no other, never a leaf pointer
    #[kani::proof]
    fn h3_3_find_entry_valid_n$n() {
        const N: usize = $n;
        let e = any_entries::<N>();
        let t: u64 = kani::any();
        assume_valid(&e);
        let d = to_dir(&e);
        let f = d.find_entry_for_tile_id(t);
        let want = vr::ref_find(&e, N, t);
        match (f, want) {
            (None, None) => {}
            (Some(x), Some(i)) => {
                assert!(x.tile_id == e[i].tile_id && x.offset == e[i].offset && x.length == e[i].length && x.run_length == e[i].run_length);
                assert!(x.run_length > 0);
            }
            _ => assert!(false),
        }
        kani::cover!(want == Some(N - 1));
        kani::cover!(N < 2 || (want.is_none() && t > e[0].tile_id && t < e[N - 1].tile_id));
        kani::cover!(e[0].run_length == 0 && t == e[0].tile_id);
        std::mem::forget(d);
    }

// @h id=H19.2-N$n prop=C19 rep="n:1-2" quick="1-2" cap=900 mem=12 unwind=12 bounds="N=$n entries, otherwise valid, with length 0 at a symbolic index i < N; max-width image for the parser"
    /// a directory containing an entry of length 0 is refused by the parser and by the serialiser, at every index
    #[kani::proof]
    fn h19_2_zero_length_n$n() {
        const N: usize = $n;
        let mut e = any_entries::<N>();
        let idx: usize = kani::any();
        assume_valid(&e);
        kani::assume(idx < N);
        let mut i = 0;
        while i < N {
            if i == idx { e[i].length = 0; }
            i += 1;
        }
        // parser
        let raw = vr::raw_columns(&e);
        let w = [[MAXW[0]; N], [MAXW[1]; N], [MAXW[2]; N], [MAXW[3]; N]];
        let mut img = [0u8; 1 + 30 * N];
        vr::put_columns(&mut img, 0, &raw, &w);
        let r = Directory::from_bytes(&img[..], Compression::None);
        assert!(r.is_err());
        // serialiser
        let d = to_dir(&e);
        let mut out = [0u8; 1 + 30 * N];
        let mut wtr = FixW::new(&mut out, 0);
        let r2 = d.to_writer(&mut wtr, Compression::None);
        assert!(r2.is_err());
        kani::cover!(idx == N - 1);
        kani::cover!(idx == 0);
        std::mem::forget(r);
        std::mem::forget(r2);
        std::mem::forget(d);
    }

// @h id=H5.1-N$n prop=C05 rep="n:0-2" quick="0-1" cap=3000 mem=14 unwind=12 uw="h5_1_encode=63" bounds="N=$n entries; every valid entry list; output compared byte for byte with the spec reference encoder"
    /// the uncompressed serialisation is byte-for-byte the PMTiles v3 encoding (equals an independent encoder's output)
    #[kani::proof]
    fn h5_1_encode_vs_ref_n$n() {
        const N: usize = $n;
        const M: usize = 1 + 30 * N;
        let e = any_entries::<N>();
        assume_valid(&e);
        let d = to_dir(&e);
        let mut out = [0u8; M];
        let mut wtr = FixW::new(&mut out, 0);
        let r = d.to_writer(&mut wtr, Compression::None);
        assert!(r.is_ok());
        std::mem::forget(r); // io::Error drop glue is a dyn dispatch over every drop function in the program
        let n = wtr.pos as usize;
        let mut want = [0u8; M];
        let m = vr::ref_encode(&e, &mut want);
        assert!(n == m);
        let mut i = 0;
        while i < M {
            if i < n { assert!(out[i] == want[i]); }
            i += 1;
        }
        kani::cover!(N < 2 || e[1].offset == e[0].offset + e[0].length as u64);
        kani::cover!(N < 2 || e[1].offset == 0);
        kani::cover!(N == 0 || n == 1 + 28 * N);
        kani::cover!(N == 0 || n == 1 + 4 * N);
        std::mem::forget(d);
    }

// @h id=H8.3r-k$k prop=C08 rep="k:0-2" quick="0-1" cap=600 mem=14 unwind=12 uw="from_reader_impl=3" checks=std alloclimit=31 stubs="allocator model: Kani's __rust_alloc/__rust_alloc_zeroed/__rust_realloc plus an assertion that no single request exceeds 2^31 bytes" bounds="Directory::from_reader with an UNTRUSTED declared length: entry count one of {2^63, 2^40, 2^64-1} followed by 2 arbitrary bytes, declared directory length one of {2^64-1, 2^42, 2^64-1} (concrete: a symbolic length makes every read through Take symbolic)"
    /// a hostile entry count combined with a hostile declared section length is still answered with an error (no capacity overflow, no absurd allocation)
    #[kani::proof]
    fn h8_3r_count_and_length_hazard_k$k() {
        const COUNTS: [u64; 3] = [1u64 << 63, 1u64 << 40, u64::MAX];
        let count: u64 = COUNTS[$k];
        let x0: u8 = kani::any();
        let x1: u8 = kani::any();
        const DECL: [u64; 3] = [u64::MAX, 1u64 << 42, u64::MAX];
        let declared: u64 = DECL[$k];
        let mut img = [0u8; 12];
        vr::put_varint_w(&mut img, 0, count, 10);
        img[10] = x0;
        img[11] = x1;
        let mut cur = std::io::Cursor::new(&img[..]);
        let r = Directory::from_reader(&mut cur, declared, Compression::None);
        assert!(r.is_err());
        kani::cover!(x0 == 0x80 && x1 == 0);
        kani::cover!(x0 == 1);
        std::mem::forget(r);
    }

// @h id=H13.d prop=C13 tier=quick cap=900 mem=16 unwind=12 uw="FixR=12" bounds="directory image of N=1 entry with padded varints (31 bytes, every valid entry); the reader answers every read with k bytes, 1 <= k <= requested"
    /// the directory parser returns the same entries from a fragmenting stream as from an in-memory buffer (H5.2)
    #[kani::proof]
    fn h13_d_directory_read_fragmented() {
        const N: usize = 1;
        let e = any_entries::<N>();
        assume_valid(&e);
        let raw = vr::raw_columns(&e);
        let w = [[MAXW[0]; N], [MAXW[1]; N], [MAXW[2]; N], [MAXW[3]; N]];
        let mut img = [0u8; 1 + 30 * N];
        vr::put_columns(&mut img, 0, &raw, &w);
        let mut rd = FixR::new(&img, (1 + 30 * N) as u64);
        rd.frag = true;
        let r = Directory::from_reader(&mut rd, (1 + 30 * N) as u64, Compression::None);
        assert!(r.is_ok());
        let d = r.unwrap();
        assert!(same(&d, &e));
        kani::cover!(rd.ops == 31);
        kani::cover!(e[0].tile_id > (1u64 << 40));
        std::mem::forget(d);
    }

// @h id=H19.5 prop=C19 tier=quick cap=300 mem=12 unwind=6 bounds="Directory::to_writer / from_reader with compression Unknown on a one-entry directory / a 5-byte image"
    /// 'unknown' compression is refused by the directory serialiser and parser
    #[kani::proof]
    fn h19_5_directory_unknown_compression() {
        let e = [REntry { tile_id: 1, offset: 0, length: 3, run_length: 1 }];
        let d = to_dir(&e);
        let mut out = [0u8; 16];
        let mut w = FixW::new(&mut out, 0);
        let r = d.to_writer(&mut w, Compression::Unknown);
        assert!(r.is_err());
        std::mem::forget(r);
        let img = [1u8, 1, 1, 3, 1];
        let r2 = Directory::from_bytes(&img[..], Compression::Unknown);
        assert!(r2.is_err());
        std::mem::forget(r2);
        assert!(w.pos == 0);
        kani::cover!(true);
        kani::cover!(w.writes == 0);
        std::mem::forget(d);
    }

// @h id=H15.d-k$k prop=C15 rep="k:0-6" quick="0-6" cap=200 mem=14 unwind=12 uw="FixR=12;FixW=12" bounds="directory of one valid entry (1-byte fields: id < 120, run 1..3, length/offset < 120, all symbolic); reader and writer fail from operation index k = $k on (the fault-free parse has 5 and the fault-free serialisation 6 stream operations: every fail-stop point is an instance)"
    /// if the stream starts failing while a directory is parsed or serialised the call returns an error: no panic, no success for an incomplete transfer
    #[kani::proof]
    fn h15_d_directory_faults_k$k() {
        let k: u32 = $k;
        let id: u8 = kani::any();
        let run: u8 = kani::any();
        let len: u8 = kani::any();
        let off: u8 = kani::any();
        kani::assume(id < 120 && run >= 1 && run <= 3 && len >= 1 && len < 120 && off < 120);
        // parser over a failing reader
        let img = [1u8, id, run, len, off + 1];
        let mut rd = FixR::new(&img, 5);
        rd.fail_from = k;
        let r = Directory::from_reader(&mut rd, 5, Compression::None);
        match &r {
            Ok(d) => { assert!(!rd.failed); assert!(d.len() == 1 && d[0].tile_id == id as u64 && d[0].offset == off as u64); }
            Err(_) => assert!(rd.failed),
        }
        kani::cover!(r.is_ok() == (k >= 5));
        std::mem::forget(r);
        // serialiser over a failing writer
        let e = [REntry { tile_id: id as u64, offset: off as u64, length: len as u32, run_length: run as u32 }];
        let d = to_dir(&e);
        let mut out = [0u8; 8];
        let mut w = FixW::new(&mut out, 0);
        w.fail_from = k;
        let r2 = d.to_writer(&mut w, Compression::None);
        match &r2 {
            Ok(()) => { assert!(!w.failed); assert!(w.pos == 5); }
            Err(_) => assert!(w.failed),
        }
        kani::cover!(r2.is_ok() == (k >= 6));
        std::mem::forget(r2);
        std::mem::forget(d);
    }

// @h id=H5.2c-w$w prop=C05,C03 rep="w:1-2" quick="1-2" cap=400 mem=12 unwind=12 uw="read_varint=4;decode_var=4" bounds="N=2 entries whose fields have CANONICAL (shortest) varint encodings of width class w=$w for ids/offsets (1: values < 128; 2: 128..16383) and 1 byte for run lengths/lengths; image = the reference encoder's canonical output"
    /// the parser decodes the independent encoder's canonical (shortest-form) output to the same entries
    #[kani::proof]
    fn h5_2c_parse_canonical_w$w() {
        const N: usize = 2;
        const W: usize = $w;
        let e = any_entries::<N>();
        assume_valid(&e);
        let raw = vr::raw_columns(&e);
        let w = [[W; N], [1; N], [1; N], [W; N]];
        let mut c = 0;
        while c < 4 {
            let mut i = 0;
            while i < N {
                kani::assume(raw[c][i] >= vr::class_lo(w[c][i]) && raw[c][i] <= vr::class_hi(w[c][i]));
                i += 1;
            }
            c += 1;
        }
        let mut img = [0u8; 1 + N * (2 * W + 2)];
        let len = vr::put_columns(&mut img, 0, &raw, &w);
        assert!(len == 1 + N * (2 * W + 2));
        // the image is exactly what the reference encoder emits (canonical form)
        let mut want = [0u8; 1 + N * (2 * W + 2)];
        let m = vr::ref_encode(&e, &mut want);
        assert!(m == len);
        let r = Directory::from_bytes(&img[..], Compression::None);
        assert!(r.is_ok());
        let d = r.unwrap();
        assert!(same(&d, &e));
        kani::cover!(e[1].run_length == 0);
        kani::cover!(e[0].length == 127);
        std::mem::forget(d);
    }
