// @common
    use crate::verif_io::FixR;

    /// Injective stand-in for the content hash (contents of <= 6 bytes): packs the length prefix and the bytes
    /// into the 64-bit value. Harnesses that use it check the dedup logic under the assumption "the content
    /// hash is injective on the contents in play"; that the REAL aHash is injective on all 1-byte contents is
    /// decided separately by H10.h, and harnesses marked 'real aHash' do not use the stub at all.
    struct PackHasher { acc: u64 }
    impl Hasher for PackHasher {
        fn write(&mut self, bytes: &[u8]) {
            let mut i = 0;
            while i < 6 {
                if i < bytes.len() { self.acc = (self.acc << 8) | bytes[i] as u64; }
                i += 1;
            }
        }
        fn write_usize(&mut self, i: usize) { self.acc = (self.acc << 8) | (i as u64 & 0xff); }
        fn finish(&self) -> u64 { self.acc }
    }
    fn stub_hash<R>(value: &impl Hash) -> u64 {
        let mut h = PackHasher { acc: 0 };
        value.hash(&mut h);
        h.finish()
    }

    type TM<'a> = TileManager<Cursor<&'a [u8]>>;

    /// reference map over the two ids a, b (which may be equal): last write wins
    struct RefMap { k: [u64; 2], v: [Option<u8>; 2] }
    impl RefMap {
        fn new(a: u64, b: u64) -> Self { Self { k: [a, b], v: [None, None] } }
        fn set(&mut self, id: u64, val: Option<u8>) {
            if self.k[0] == id { self.v[0] = val; }
            if self.k[1] == id { self.v[1] = val; }
        }
        fn get(&self, p: u64) -> Option<u8> {
            if p == self.k[0] { self.v[0] } else if p == self.k[1] { self.v[1] } else { None }
        }
        fn count(&self) -> usize {
            if self.k[0] == self.k[1] { self.v[0].is_some() as usize } else { self.v[0].is_some() as usize + self.v[1].is_some() as usize }
        }
        fn distinct_contents(&self) -> usize {
            match (self.v[0], self.v[1]) {
                (Some(x), Some(y)) => if self.k[0] == self.k[1] || x == y { 1 } else { 2 },
                (Some(_), None) | (None, Some(_)) => 1,
                (None, None) => 0,
            }
        }
    }

    fn lookup(m: &mut TM, p: u64) -> Option<u8> {
        let r = m.get_tile(p);
        assert!(r.is_ok());
        let r = r.unwrap();
        match r {
            None => None,
            Some(v) => {
                assert!(v.len() == 1);
                let x = v[0];
                std::mem::forget(v);
                Some(x)
            }
        }
    }

    fn listed(m: &TM, p: u64) -> bool {
        let ids = m.get_tile_ids();
        let mut found = false;
        let mut i = 0;
        while i < 4 {
            if i < ids.len() && *ids[i] == p { found = true; }
            i += 1;
        }
        let n = ids.len();
        std::mem::forget(ids);
        assert!(n == m.num_addressed_tiles());
        found
    }

    /// one symbolic edit: kind 0 = add(id, [c]), kind 1 = remove(id); id is a or b
    fn step(m: &mut TM, rf: &mut RefMap, a: u64, b: u64, kind: u8, which: bool, c: u8) {
        let id = if which { b } else { a };
        if kind == 0 {
            let r = m.add_tile(id, vec![c]);
            assert!(r.is_ok());
            std::mem::forget(r);
            rf.set(id, Some(c));
        } else {
            m.remove_tile(id);
            rf.set(id, None);
        }
    }

    fn check_against(m: &mut TM, rf: &RefMap, p: u64) {
        assert!(lookup(m, p) == rf.get(p));
        assert!(m.num_addressed_tiles() == rf.count());
        assert!(listed(m, p) == rf.get(p).is_some());
        // retention (C10): exactly one stored copy and one reference set per distinct live content
        assert!(m.data_by_hash.len() == rf.distinct_contents());
        assert!(m.ids_by_hash.len() == rf.distinct_contents());
        assert!(m.tile_by_id.len() == rf.count());
    }

// @h id=H4.1-K$k prop=C04,C10 rep="k:1-2" quick="1-1" cap=2400 mem=16 unwind=6 bounds="K=$k edits, each a symbolic choice of add(id,[c]) / remove(id) with id in {a,b}; a, b any u64 (possibly equal), contents any single byte (real aHash); after every step: lookup of a symbolic probe id (any u64), tile count, probe in listing, and the sizes of the three internal maps against a 2-slot reference map"
    /// under any edit history the store behaves like a map id -> bytes, and retains exactly one copy per distinct live content
    #[kani::proof]
    fn h4_1_history_k$k() {
        let a: u64 = kani::any();
        let b: u64 = kani::any();
        let p: u64 = kani::any();
        let mut m = TM::new(None);
        let mut rf = RefMap::new(a, b);
        let mut i = 0;
        while i < $k {
            let kind: u8 = kani::any();
            let which: bool = kani::any();
            let c: u8 = kani::any();
            kani::assume(kind < 2);
            step(&mut m, &mut rf, a, b, kind, which, c);
            check_against(&mut m, &rf, p);
            i += 1;
        }
        kani::cover!(rf.count() == $k.min(2));
        kani::cover!(rf.count() == 0);
        kani::cover!($k < 2 || (rf.count() == 2 && rf.distinct_contents() == 1));
        kani::cover!($k < 2 || (rf.count() == 1 && a != b && p == a && rf.get(p).is_none()));
        std::mem::forget(m);
    }

// @h id=H4.1s-K$k prop=C04,C10 rep="k:1-2" quick="1-2" cap=1800 mem=16 unwind=8 stubs="TileManager::calculate_hash -> injective packing (see H10.1)" bounds="K=$k edits, each a symbolic choice of add(id,[c]) / remove(id) with id in {a,b}; a, b any u64 (possibly equal), contents any single byte; after every step: lookup of a symbolic probe id (any u64), tile count, probe in listing, and the sizes of the three internal maps against a 2-slot reference map"
    /// under any edit history the store behaves like a map id -> bytes, and retains exactly one copy per distinct live content
    #[kani::proof]
    #[kani::stub(crate::tile_manager::TileManager::calculate_hash, stub_hash)]
    fn h4_1s_history_k$k() {
        let a: u64 = kani::any();
        let b: u64 = kani::any();
        let p: u64 = kani::any();
        let mut m = TM::new(None);
        let mut rf = RefMap::new(a, b);
        let mut i = 0;
        while i < $k {
            let kind: u8 = kani::any();
            let which: bool = kani::any();
            let c: u8 = kani::any();
            kani::assume(kind < 2);
            step(&mut m, &mut rf, a, b, kind, which, c);
            check_against(&mut m, &rf, p);
            i += 1;
        }
        kani::cover!(rf.count() == $k.min(2));
        kani::cover!(rf.count() == 0);
        kani::cover!($k < 2 || (rf.count() == 2 && rf.distinct_contents() == 1));
        kani::cover!($k < 2 || (rf.count() == 1 && a != b && p == a && rf.get(p).is_none()));
        std::mem::forget(m);
    }

// @h id=H19.1-K$k prop=C19 rep="k:0-2" quick="0-1" cap=1800 mem=16 unwind=6 bounds="history of K=$k symbolic edits (as H4.1), then add_tile(id, []) with id any u64"
    /// adding a tile with empty content is refused with an error and changes nothing
    #[kani::proof]
    fn h19_1_empty_refused_k$k() {
        let a: u64 = kani::any();
        let b: u64 = kani::any();
        let p: u64 = kani::any();
        let id: u64 = kani::any();
        let mut m = TM::new(None);
        let mut rf = RefMap::new(a, b);
        let mut i = 0;
        while i < $k {
            let kind: u8 = kani::any();
            let which: bool = kani::any();
            let c: u8 = kani::any();
            kani::assume(kind < 2);
            step(&mut m, &mut rf, a, b, kind, which, c);
            i += 1;
        }
        let r = m.add_tile(id, Vec::new());
        assert!(r.is_err());
        std::mem::forget(r);
        check_against(&mut m, &rf, p);
        kani::cover!($k == 0 || (id == a && rf.get(a).is_some()));
        kani::cover!($k == 0 || rf.count() == 1);
        std::mem::forget(m);
    }

// @common
    /// reference result of finish() for the logical content {a: ca, b: cb} (a != b), per the specification:
    /// tiles in id order, each distinct content stored once in order of first occurrence, adjacent ids with
    /// identical content merged into one run. Checks the real result field by field.
    fn check_finish_two(r: &FinishResult, a: u64, ca: u8, b: u64, cb: u8) {
        let (lo, clo, hi, chi) = if a < b { (a, ca, b, cb) } else { (b, cb, a, ca) };
        assert!(r.num_addressed_tiles == 2);
        if clo == chi {
            assert!(r.data.len() == 1 && r.data[0] == clo);
            assert!(r.num_tile_content == 1);
            if hi == lo + 1 {
                assert!(r.directory.len() == 1 && r.num_tile_entries == 1);
                let e = &r.directory[0];
                assert!(e.tile_id == lo && e.offset == 0 && e.length == 1 && e.run_length == 2);
            } else {
                assert!(r.directory.len() == 2 && r.num_tile_entries == 2);
                let e = &r.directory[0];
                let f = &r.directory[1];
                assert!(e.tile_id == lo && e.offset == 0 && e.length == 1 && e.run_length == 1);
                assert!(f.tile_id == hi && f.offset == 0 && f.length == 1 && f.run_length == 1);
            }
        } else {
            assert!(r.data.len() == 2 && r.data[0] == clo && r.data[1] == chi);
            assert!(r.num_tile_content == 2);
            assert!(r.directory.len() == 2 && r.num_tile_entries == 2);
            let e = &r.directory[0];
            let f = &r.directory[1];
            assert!(e.tile_id == lo && e.offset == 0 && e.length == 1 && e.run_length == 1);
            assert!(f.tile_id == hi && f.offset == 1 && f.length == 1 && f.run_length == 1);
        }
    }

    fn add1(m: &mut TM, id: u64, c: u8) {
        let r = m.add_tile(id, vec![c]);
        assert!(r.is_ok());
        std::mem::forget(r);
    }

// @h id=H10.1-i$i prop=C10,C16,C02 rep="i:0-15" quick="0,5,10" quick_C02="0" quick_C10="0,5" cap=900 stubs="TileManager::calculate_hash -> injective packing of length and bytes (real aHash: H10.1r, injectivity on 1-byte contents: H10.h)" mem=20 unwind=8 bounds="logical content {a: [ca], b: [cb]}; id pair (i%4) of {(5,6) adjacent, (6,5) adjacent given in descending order, (5,9) gap, (2^63,3) far apart/top bit} concrete per instance (symbolic ids make the length of the vector handed to std's sort non-constant for symex: no result in 40 min); ca, cb, x any byte; history (i/4) of {0: add a, add b; 1: add b, add a; 2: add a [x], add b, replace a; 3: add a, add b [x], remove b, add b}; every map iteration inside finish() runs in an unconstrained order"
    /// finish() is a canonical function of the logical content: ids sorted, each distinct content stored once, adjacent equal tiles merged into one run, counters exact - whatever history produced the content and whatever order the hash maps iterate in
    #[kani::proof]
    #[kani::stub(crate::tile_manager::TileManager::calculate_hash, stub_hash)]
    fn h10_1_finish_two_i$i() {
        const PAIRS: [(u64, u64); 4] = [(5, 6), (6, 5), (5, 9), (1u64 << 63, 3)];
        let (a, b) = PAIRS[$i % 4];
        let h = $i / 4;
        let ca: u8 = kani::any();
        let cb: u8 = kani::any();
        let x: u8 = kani::any();
        let mut m = TM::new(None);
        if h == 0 {
            add1(&mut m, a, ca);
            add1(&mut m, b, cb);
        } else if h == 1 {
            add1(&mut m, b, cb);
            add1(&mut m, a, ca);
        } else if h == 2 {
            add1(&mut m, a, x);
            add1(&mut m, b, cb);
            add1(&mut m, a, ca);
        } else {
            add1(&mut m, a, ca);
            add1(&mut m, b, x);
            m.remove_tile(b);
            add1(&mut m, b, cb);
        }
        let r = m.finish();
        assert!(r.is_ok());
        let r = r.unwrap();
        check_finish_two(&r, a, ca, b, cb);
        kani::cover!(ca == cb);
        kani::cover!(ca != cb);
        kani::cover!(h < 2 || (x != ca && x != cb));
        std::mem::forget(r);
    }

// @h id=H10.h prop=C10,C04,C16 tier=quick cap=900 mem=12 unwind=6 bounds="every pair of distinct 1-byte contents (real AHasher::default() fallback hash)"
    /// the real content hash is injective on 1-byte contents (the assumption under which the stubbed harnesses check the dedup logic)
    #[kani::proof]
    fn h10_h_real_hash_injective_1byte() {
        let c0: u8 = kani::any();
        let c1: u8 = kani::any();
        kani::assume(c0 != c1);
        let v0 = vec![c0];
        let v1 = vec![c1];
        let h0 = TM::calculate_hash(&v0);
        let h1 = TM::calculate_hash(&v1);
        assert!(h0 != h1);
        kani::cover!(c0 == 0 && c1 == 255);
        kani::cover!(c0 == 7 && c1 == 6);
        std::mem::forget(v0);
        std::mem::forget(v1);
    }

// @h id=H10.2-i$i prop=C10,C16,C04 rep="i:0-5" quick="0,4" quick_C16="0" quick_C04="4" cap=900 mem=20 unwind=8 stubs="TileManager::calculate_hash -> injective packing (see H10.1)" bounds="one reader-backed tile (1 byte at a symbolic offset 0..3 of a 4-byte backing stream of arbitrary bytes) and one in-memory tile [c]; id pair (i%3) of {(5,6), (6,5), (5,9)} = (reader-backed id, in-memory id); i/3 = order of registration"
    /// duplicates between reader-backed and in-memory tiles are stored once (and merged into one run when adjacent); the result is the same canonical function of the logical content
    #[kani::proof]
    #[kani::stub(crate::tile_manager::TileManager::calculate_hash, stub_hash)]
    fn h10_2_reader_backed_i$i() {
        const PAIRS: [(u64, u64); 3] = [(5, 6), (6, 5), (5, 9)];
        let (a, b) = PAIRS[$i % 3];
        let d0: u8 = kani::any();
        let d1: u8 = kani::any();
        let d2: u8 = kani::any();
        let d3: u8 = kani::any();
        let c: u8 = kani::any();
        let off: u64 = kani::any();
        kani::assume(off < 4);
        let data = [d0, d1, d2, d3];
        let da = if off == 0 { d0 } else if off == 1 { d1 } else if off == 2 { d2 } else { d3 };
        let mut m = TM::new(Some(Cursor::new(&data[..])));
        if $i / 3 == 0 {
            m.add_offset_tile(a, off, 1).unwrap();
            add1(&mut m, b, c);
        } else {
            add1(&mut m, b, c);
            m.add_offset_tile(a, off, 1).unwrap();
        }
        // map semantics over the opened tile (C04)
        assert!(lookup(&mut m, a) == Some(da));
        assert!(lookup(&mut m, b) == Some(c));
        assert!(m.num_addressed_tiles() == 2);
        let r = m.finish();
        assert!(r.is_ok());
        let r = r.unwrap();
        check_finish_two(&r, a, da, b, c);
        kani::cover!(da == c);
        kani::cover!(da != c && off == 3);
        std::mem::forget(r);
    }

// @h id=H4.2-k$k prop=C04 rep="k:0-2" quick="0-2" cap=900 mem=16 unwind=8 stubs="TileManager::calculate_hash -> injective packing (see H10.1)" bounds="initial state 'opened': one reader-backed tile a (1 byte at a symbolic offset of a 4-byte backing stream); then one edit k of {0: add(b,[c]) with b any u64; 1: remove(a); 2: replace a by [c]}; probe id any u64"
    /// an archive opened from bytes behaves like the same map under edits: replacing or removing an opened tile, or adding another id, never changes any other id
    #[kani::proof]
    #[kani::stub(crate::tile_manager::TileManager::calculate_hash, stub_hash)]
    fn h4_2_opened_then_edit_k$k() {
        let a: u64 = kani::any();
        let b: u64 = kani::any();
        let p: u64 = kani::any();
        let d0: u8 = kani::any();
        let d1: u8 = kani::any();
        let c: u8 = kani::any();
        let off: u64 = kani::any();
        kani::assume(off < 2);
        let data = [d0, d1];
        let da = if off == 0 { d0 } else { d1 };
        let mut m = TM::new(Some(Cursor::new(&data[..])));
        m.add_offset_tile(a, off, 1).unwrap();
        let mut rf = RefMap::new(a, b);
        rf.set(a, Some(da));
        if $k == 0 {
            add1(&mut m, b, c);
            rf.set(b, Some(c));
        } else if $k == 1 {
            m.remove_tile(a);
            rf.set(a, None);
        } else {
            add1(&mut m, a, c);
            rf.set(a, Some(c));
        }
        assert!(lookup(&mut m, p) == rf.get(p));
        assert!(m.num_addressed_tiles() == rf.count());
        assert!(listed(&m, p) == rf.get(p).is_some());
        kani::cover!($k == 1 || (p == a && rf.get(p).is_some()));
        kani::cover!($k != 1 || (p == a && rf.get(p).is_none()));
        kani::cover!($k != 0 || (a == b));
        kani::cover!($k != 0 || (p == b && a != b));
        std::mem::forget(m);
    }

// @h id=H13.t prop=C13,C20 tier=quick cap=900 mem=16 unwind=10 uw="FixR=6" bounds="tile of 3 bytes at a symbolic offset 0..4 of an 8-byte stream of arbitrary bytes; every fragmentation schedule (each read moves k bytes, 1 <= k <= requested, k chosen freshly per call)"
    /// a tile lookup returns exactly the tile's bytes however the stream fragments the read, and reads nothing outside the tile's byte range
    #[kani::proof]
    fn h13_t_tile_fetch_fragmented() {
        let off: u64 = kani::any();
        kani::assume(off <= 4);
        let mut data = [0u8; 8];
        let mut i = 0;
        while i < 8 { data[i] = kani::any(); i += 1; }
        let mut rd = FixR::new(&data, 8);
        rd.frag = true;
        let mut m = TileManager::<FixR<8>>::new(Some(rd));
        m.add_offset_tile(7, off, 3).unwrap();
        let r = m.get_tile(7);
        assert!(r.is_ok());
        let v = r.unwrap().unwrap();
        assert!(v.len() == 3);
        let o = off as usize;
        assert!(v[0] == data[o] && v[1] == data[o + 1] && v[2] == data[o + 2]);
        // C20: exactly the tile's byte range was read
        let rdr = m.reader.as_ref().unwrap();
        assert!(rdr.lo == off && rdr.hi == off + 3);
        kani::cover!(off == 4);
        kani::cover!(rdr.ops >= 4);   // seek + three 1-byte reads
        kani::cover!(rdr.ops == 2);   // seek + one full read
        std::mem::forget(v);
        std::mem::forget(m);
    }

// @h id=H15.t prop=C15 tier=quick cap=900 mem=16 unwind=8 uw="FixR=6" bounds="tile of 3 bytes in an 8-byte stream; the stream fails from a symbolic operation index on (any u32); full transfers"
    /// if the stream starts failing during a tile lookup the lookup returns an error: no panic, no success for an incomplete transfer
    #[kani::proof]
    fn h15_t_tile_fetch_faults() {
        let k: u32 = kani::any();
        let data = [1u8, 2, 3, 4, 5, 6, 7, 8];
        let mut rd = FixR::new(&data, 8);
        rd.fail_from = k;
        let mut m = TileManager::<FixR<8>>::new(Some(rd));
        m.add_offset_tile(7, 2, 3).unwrap();
        let r = m.get_tile(7);
        let failed = m.reader.as_ref().unwrap().failed;
        match &r {
            Ok(v) => {
                assert!(!failed);
                let v = v.as_ref().unwrap();
                assert!(v.len() == 3 && v[0] == 3 && v[1] == 4 && v[2] == 5);
            }
            Err(_) => assert!(failed),
        }
        kani::cover!(r.is_ok());
        kani::cover!(r.is_err() && k == 0);
        kani::cover!(r.is_err() && k == 1);
        std::mem::forget(r);
        std::mem::forget(m);
    }

// @h id=H15.f prop=C15 tier=quick cap=900 mem=20 unwind=8 uw="FixR=6" stubs="TileManager::calculate_hash -> injective packing (see H10.1)" bounds="finish() over one reader-backed tile (2 bytes) and one in-memory tile; the backing stream fails from a symbolic operation index on"
    /// building the archive's tile data from a backing stream that starts failing returns an error, never a silently incomplete result
    #[kani::proof]
    #[kani::stub(crate::tile_manager::TileManager::calculate_hash, stub_hash)]
    fn h15_f_finish_faults() {
        let k: u32 = kani::any();
        let c: u8 = kani::any();
        let data = [1u8, 2, 3, 4];
        let mut rd = FixR::new(&data, 4);
        rd.fail_from = k;
        let mut m = TileManager::<FixR<4>>::new(Some(rd));
        m.add_offset_tile(5, 1, 2).unwrap();
        let r0 = m.add_tile(9, vec![c]);
        std::mem::forget(r0);
        let r = m.finish();
        match &r {
            Ok(fr) => {
                assert!(k >= 2);   // the fault-free run needs its seek and its read
                assert!(fr.num_addressed_tiles == 2);
                assert!(fr.data.len() == 3);
            }
            Err(_) => assert!(k < 2),
        }
        kani::cover!(r.is_ok());
        kani::cover!(r.is_err() && k == 1);
        std::mem::forget(r);
    }

// @h id=H4.c prop=C04,C10,C16 tier=quick cap=600 mem=16 unwind=18 role=collision expect=finding bounds="two 16-byte contents sharing a fixed 8-byte prefix, 8-byte tails symbolic and distinct, real AHasher::default(); ids 0 and 7"
    /// WITNESS OF KNOWN FINDING F5: tiles are deduplicated by a 64-bit content hash alone; the solver is asked for two distinct contents with equal hash, for which the second add silently replaces the first tile's bytes
    #[kani::proof]
    fn h4_c_distinct_contents_equal_hash() {
        let mut a = [0u8; 16];
        let mut b = [0u8; 16];
        let mut i = 0;
        // the shared 8-byte prefix: little-endian bytes of 0xa4093822299f31d0, for which one factor of aHash's
        // folded multiply is zero (all 24 bytes symbolic: no answer from the solver in 600 s)
        const PREFIX: [u8; 8] = [0xd0, 0x31, 0x9f, 0x29, 0x22, 0x38, 0x09, 0xa4];
        while i < 8 {
            a[i] = PREFIX[i];
            b[i] = PREFIX[i];
            i += 1;
        }
        let mut differ = false;
        while i < 16 {
            a[i] = kani::any();
            b[i] = kani::any();
            if a[i] != b[i] { differ = true; }
            i += 1;
        }
        kani::assume(differ);
        let mut m = TM::new(None);
        let r0 = m.add_tile(0, a.to_vec());
        let r1 = m.add_tile(7, b.to_vec());
        std::mem::forget(r0);
        std::mem::forget(r1);
        let g = m.get_tile(0).unwrap().unwrap();
        let mut same = g.len() == 16;
        let mut j = 0;
        while j < 16 {
            if j < g.len() && g[j] != a[j] { same = false; }
            j += 1;
        }
        assert!(same, "distinct contents with equal content hash: tile 0 now returns tile 7's bytes");
        kani::cover!(true);
        std::mem::forget(g);
        std::mem::forget(m);
    }

// @h id=H10.p prop=C10,C04,C02 tier=quick cap=300 mem=12 unwind=4 bounds="one step of the run-length builder from an ARBITRARY last entry (any id, offset, length, run length 1..2^32-2, id + run length inside u64) and an arbitrary next tile (any id above the last run, any offset, any length >= 1): full value domain"
    /// push_entry extends the last run exactly when the tile is the next id AND has the same (offset, length); otherwise it starts a new entry with run length 1 - so adjacent entries are never mergeable and no tile is attributed to another tile's content
    #[kani::proof]
    fn h10_p_push_entry_step() {
        let lid: u64 = kani::any();
        let loff: u64 = kani::any();
        let llen: u32 = kani::any();
        let lrun: u32 = kani::any();
        let id: u64 = kani::any();
        let off: u64 = kani::any();
        let len: u32 = kani::any();
        kani::assume(llen >= 1 && len >= 1 && lrun >= 1 && lrun < u32::MAX);
        kani::assume(lid <= u64::MAX - lrun as u64);
        kani::assume(id >= lid + lrun as u64);            // ids arrive sorted and distinct
        let mut entries = Vec::with_capacity(2);
        entries.push(Entry { tile_id: lid, offset: loff, length: llen, run_length: lrun });
        TM::push_entry(&mut entries, id, off, len);
        let extend = id == lid + lrun as u64 && off == loff && len == llen;
        if extend {
            assert!(entries.len() == 1);
            let e = &entries[0];
            assert!(e.tile_id == lid && e.offset == loff && e.length == llen && e.run_length == lrun + 1);
        } else {
            assert!(entries.len() == 2);
            let e = &entries[0];
            let f = &entries[1];
            assert!(e.tile_id == lid && e.offset == loff && e.length == llen && e.run_length == lrun);
            assert!(f.tile_id == id && f.offset == off && f.length == len && f.run_length == 1);
        }
        kani::cover!(extend && lrun == 65535);
        kani::cover!(!extend && id == lid + lrun as u64 && off < loff && len == llen);
        kani::cover!(!extend && id - lid == (1u64 << 32) + lrun as u64 && off == loff && len == llen);
        kani::cover!(extend && lid > (1u64 << 40));
        std::mem::forget(entries);
    }

// @h id=H10.3 prop=C10,C16 tier=quick cap=600 mem=20 unwind=8 stubs="TileManager::calculate_hash -> injective packing (see H10.1)" bounds="two reader-backed tiles at ids 5 and 9 that START AT THE SAME offset of the backing stream with lengths 1 and 2 (overlapping prefix storage, as a foreign writer may lay out), backing bytes arbitrary"
    /// contents that share a start offset but differ in length are distinct contents: both are written, each once
    #[kani::proof]
    #[kani::stub(crate::tile_manager::TileManager::calculate_hash, stub_hash)]
    fn h10_3_same_offset_different_length() {
        let d0: u8 = kani::any();
        let d1: u8 = kani::any();
        let data = [d0, d1, 0x33, 0x44];
        let mut m = TM::new(Some(Cursor::new(&data[..])));
        m.add_offset_tile(5, 0, 1).unwrap();
        m.add_offset_tile(9, 0, 2).unwrap();
        let r = m.finish();
        assert!(r.is_ok());
        let r = r.unwrap();
        assert!(r.num_addressed_tiles == 2 && r.num_tile_content == 2 && r.num_tile_entries == 2);
        assert!(r.data.len() == 3);
        assert!(r.data[0] == d0 && r.data[1] == d0 && r.data[2] == d1);
        let e = &r.directory[0];
        let f = &r.directory[1];
        assert!(e.tile_id == 5 && e.offset == 0 && e.length == 1 && e.run_length == 1);
        assert!(f.tile_id == 9 && f.offset == 1 && f.length == 2 && f.run_length == 1);
        kani::cover!(d0 == d1);
        kani::cover!(d0 != d1);
        std::mem::forget(r);
    }
