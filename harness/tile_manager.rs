// @common
    use crate::verif_io::FixR;

    /// Injective stand-in for the content hash (contents of <= 6 bytes): packs the length prefix and the bytes
    /// into the 64-bit value. Harnesses that use it check the dedup logic under the assumption "the content
    /// hash is injective on the contents in play"; that the REAL aHash is injective on all 1-byte contents is
    /// decided separately by H10.h, and harnesses marked 'real aHash' do not use the stub at all.
    struct PackHasher { acc: u64 }
    impl Hasher for PackHasher {
        fn write(&mut self, bytes: &[u8]) {
            let mut i = 0;
            while i < 6 {
                if i < bytes.len() { self.acc = (self.acc << 8) | bytes[i] as u64; }
                i += 1;
            }
        }
        fn write_usize(&mut self, i: usize) { self.acc = (self.acc << 8) | (i as u64 & 0xff); }
        fn finish(&self) -> u64 { self.acc }
    }
    fn stub_hash<R>(value: &impl Hash) -> u64 {
        let mut h = PackHasher { acc: 0 };
        value.hash(&mut h);
        h.finish()
    }

    type TM<'a> = TileManager<Cursor<&'a [u8]>>;

    /// reference map over the two ids a, b (which may be equal): last write wins
    struct RefMap { k: [u64; 2], v: [Option<u8>; 2] }
    impl RefMap {
        fn new(a: u64, b: u64) -> Self { Self { k: [a, b], v: [None, None] } }
        fn set(&mut self, id: u64, val: Option<u8>) {
            if self.k[0] == id { self.v[0] = val; }
            if self.k[1] == id { self.v[1] = val; }
        }
        fn get(&self, p: u64) -> Option<u8> {
            if p == self.k[0] { self.v[0] } else if p == self.k[1] { self.v[1] } else { None }
        }
        fn count(&self) -> usize {
            if self.k[0] == self.k[1] { self.v[0].is_some() as usize } else { self.v[0].is_some() as usize + self.v[1].is_some() as usize }
        }
        fn distinct_contents(&self) -> usize {
            match (self.v[0], self.v[1]) {
                (Some(x), Some(y)) => if self.k[0] == self.k[1] || x == y { 1 } else { 2 },
                (Some(_), None) | (None, Some(_)) => 1,
                (None, None) => 0,
            }
        }
    }

    fn lookup(m: &mut TM, p: u64) -> Option<u8> {
        let r = m.get_tile(p);
        assert!(r.is_ok());
        let r = r.unwrap();
        match r {
            None => None,
            Some(v) => {
                assert!(v.len() == 1);
                let x = v[0];
                std::mem::forget(v);
                Some(x)
            }
        }
    }

    fn listed(m: &TM, p: u64) -> bool {
        let ids = m.get_tile_ids();
        let mut found = false;
        let mut i = 0;
        while i < 4 {
            if i < ids.len() && *ids[i] == p { found = true; }
            i += 1;
        }
        let n = ids.len();
        std::mem::forget(ids);
        assert!(n == m.num_addressed_tiles());
        found
    }

    /// one symbolic edit: kind 0 = add(id, [c]), kind 1 = remove(id); id is a or b
    fn step(m: &mut TM, rf: &mut RefMap, a: u64, b: u64, kind: u8, which: bool, c: u8) {
        let id = if which { b } else { a };
        if kind == 0 {
            let r = m.add_tile(id, vec![c]);
            assert!(r.is_ok());
            std::mem::forget(r);
            rf.set(id, Some(c));
        } else {
            m.remove_tile(id);
            rf.set(id, None);
        }
    }

    fn check_against(m: &mut TM, rf: &RefMap, p: u64) {
        assert!(lookup(m, p) == rf.get(p));
        assert!(m.num_addressed_tiles() == rf.count());
        assert!(listed(m, p) == rf.get(p).is_some());
        // retention (C10): exactly one stored copy and one reference set per distinct live content
        assert!(m.data_by_hash.len() == rf.distinct_contents());
        assert!(m.ids_by_hash.len() == rf.distinct_contents());
        assert!(m.tile_by_id.len() == rf.count());
    }

// @h id=H4.1-K$k prop=C04,C10 rep="k:1-3" quick="1-2" cap=1800 mem=16 unwind=6 bounds="K=$k edits, each a symbolic choice of add(id,[c]) / remove(id) with id in {a,b}; a, b any u64 (possibly equal), contents any single byte (real aHash); after every step: lookup of a symbolic probe id (any u64), tile count, probe in listing, and the sizes of the three internal maps against a 2-slot reference map"
    /// under any edit history the store behaves like a map id -> bytes, and retains exactly one copy per distinct live content
    #[kani::proof]
    fn h4_1_history_k$k() {
        let a: u64 = kani::any();
        let b: u64 = kani::any();
        let p: u64 = kani::any();
        let mut m = TM::new(None);
        let mut rf = RefMap::new(a, b);
        let mut i = 0;
        while i < $k {
            let kind: u8 = kani::any();
            let which: bool = kani::any();
            let c: u8 = kani::any();
            kani::assume(kind < 2);
            step(&mut m, &mut rf, a, b, kind, which, c);
            check_against(&mut m, &rf, p);
            i += 1;
        }
        kani::cover!(rf.count() == $k.min(2));
        kani::cover!(rf.count() == 0);
        kani::cover!($k < 2 || (rf.count() == 2 && rf.distinct_contents() == 1));
        kani::cover!($k < 2 || (rf.count() == 1 && a != b && p == a && rf.get(p).is_none()));
        std::mem::forget(m);
    }

// @h id=H19.1-K$k prop=C19 rep="k:0-2" quick="0-1" cap=1800 mem=16 unwind=6 bounds="history of K=$k symbolic edits (as H4.1), then add_tile(id, []) with id any u64"
    /// adding a tile with empty content is refused with an error and changes nothing
    #[kani::proof]
    fn h19_1_empty_refused_k$k() {
        let a: u64 = kani::any();
        let b: u64 = kani::any();
        let p: u64 = kani::any();
        let id: u64 = kani::any();
        let mut m = TM::new(None);
        let mut rf = RefMap::new(a, b);
        let mut i = 0;
        while i < $k {
            let kind: u8 = kani::any();
            let which: bool = kani::any();
            let c: u8 = kani::any();
            kani::assume(kind < 2);
            step(&mut m, &mut rf, a, b, kind, which, c);
            i += 1;
        }
        let r = m.add_tile(id, Vec::new());
        assert!(r.is_err());
        std::mem::forget(r);
        check_against(&mut m, &rf, p);
        kani::cover!(id == a && rf.get(a).is_some());
        kani::cover!($k == 0 || rf.count() == 1);
        std::mem::forget(m);
    }

// @common
    /// reference result of finish() for the logical content {a: ca, b: cb} (a != b), per the specification:
    /// tiles in id order, each distinct content stored once in order of first occurrence, adjacent ids with
    /// identical content merged into one run. Checks the real result field by field.
    fn check_finish_two(r: &FinishResult, a: u64, ca: u8, b: u64, cb: u8) {
        let (lo, clo, hi, chi) = if a < b { (a, ca, b, cb) } else { (b, cb, a, ca) };
        assert!(r.num_addressed_tiles == 2);
        if clo == chi {
            assert!(r.data.len() == 1 && r.data[0] == clo);
            assert!(r.num_tile_content == 1);
            if hi == lo + 1 {
                assert!(r.directory.len() == 1 && r.num_tile_entries == 1);
                let e = &r.directory[0];
                assert!(e.tile_id == lo && e.offset == 0 && e.length == 1 && e.run_length == 2);
            } else {
                assert!(r.directory.len() == 2 && r.num_tile_entries == 2);
                let e = &r.directory[0];
                let f = &r.directory[1];
                assert!(e.tile_id == lo && e.offset == 0 && e.length == 1 && e.run_length == 1);
                assert!(f.tile_id == hi && f.offset == 0 && f.length == 1 && f.run_length == 1);
            }
        } else {
            assert!(r.data.len() == 2 && r.data[0] == clo && r.data[1] == chi);
            assert!(r.num_tile_content == 2);
            assert!(r.directory.len() == 2 && r.num_tile_entries == 2);
            let e = &r.directory[0];
            let f = &r.directory[1];
            assert!(e.tile_id == lo && e.offset == 0 && e.length == 1 && e.run_length == 1);
            assert!(f.tile_id == hi && f.offset == 1 && f.length == 1 && f.run_length == 1);
        }
    }

    fn add1(m: &mut TM, id: u64, c: u8) {
        let r = m.add_tile(id, vec![c]);
        assert!(r.is_ok());
        std::mem::forget(r);
    }

// @h id=H10.1-i$i prop=C10,C16,C02 rep="i:0-15" quick="0,5,10,15" cap=900 stubs="TileManager::calculate_hash -> injective packing of length and bytes (real aHash: H10.1r, injectivity on 1-byte contents: H10.h)" mem=20 unwind=8 bounds="logical content {a: [ca], b: [cb]}; id pair (i%4) of {(5,6) adjacent, (6,5) adjacent given in descending order, (5,9) gap, (2^63,3) far apart/top bit} concrete per instance (symbolic ids make the length of the vector handed to std's sort non-constant for symex: no result in 40 min); ca, cb, x any byte; history (i/4) of {0: add a, add b; 1: add b, add a; 2: add a [x], add b, replace a; 3: add a, add b [x], remove b, add b}; every map iteration inside finish() runs in an unconstrained order"
    /// finish() is a canonical function of the logical content: ids sorted, each distinct content stored once, adjacent equal tiles merged into one run, counters exact - whatever history produced the content and whatever order the hash maps iterate in
    #[kani::proof]
    #[kani::stub(crate::tile_manager::TileManager::calculate_hash, stub_hash)]
    fn h10_1_finish_two_i$i() {
        const PAIRS: [(u64, u64); 4] = [(5, 6), (6, 5), (5, 9), (1u64 << 63, 3)];
        let (a, b) = PAIRS[$i % 4];
        let h = $i / 4;
        let ca: u8 = kani::any();
        let cb: u8 = kani::any();
        let x: u8 = kani::any();
        let mut m = TM::new(None);
        if h == 0 {
            add1(&mut m, a, ca);
            add1(&mut m, b, cb);
        } else if h == 1 {
            add1(&mut m, b, cb);
            add1(&mut m, a, ca);
        } else if h == 2 {
            add1(&mut m, a, x);
            add1(&mut m, b, cb);
            add1(&mut m, a, ca);
        } else {
            add1(&mut m, a, ca);
            add1(&mut m, b, x);
            m.remove_tile(b);
            add1(&mut m, b, cb);
        }
        let r = m.finish();
        assert!(r.is_ok());
        let r = r.unwrap();
        check_finish_two(&r, a, ca, b, cb);
        kani::cover!(ca == cb);
        kani::cover!(ca != cb);
        kani::cover!(h < 2 || (x != ca && x != cb));
        std::mem::forget(r);
    }

// @h id=H10.h prop=C10,C04,C16 tier=quick cap=900 mem=12 unwind=6 bounds="every pair of distinct 1-byte contents (real AHasher::default() fallback hash)"
    /// the real content hash is injective on 1-byte contents (the assumption under which the stubbed harnesses check the dedup logic)
    #[kani::proof]
    fn h10_h_real_hash_injective_1byte() {
        let c0: u8 = kani::any();
        let c1: u8 = kani::any();
        kani::assume(c0 != c1);
        let v0 = vec![c0];
        let v1 = vec![c1];
        let h0 = TM::calculate_hash(&v0);
        let h1 = TM::calculate_hash(&v1);
        assert!(h0 != h1);
        kani::cover!(c0 == 0 && c1 == 255);
        kani::cover!(c0 == 7 && c1 == 6);
        std::mem::forget(v0);
        std::mem::forget(v1);
    }
