// @common
    use std::ops::Bound;

    fn mk_bound(kind: u8, v: u64) -> Bound<u64> {
        match kind {
            0 => Bound::Included(v),
            1 => Bound::Excluded(v),
            _ => Bound::Unbounded,
        }
    }

// @h id=H11.1 prop=C11 tier=quick cap=120 checks=std bounds="end bound kind in {Included,Excluded,Unbounded} x every u64 endpoint (full domain)"
    /// range_end_inc never panics and returns the inclusive end for every bound kind and endpoint.
    #[kani::proof]
    fn h11_1_range_end_inc() {
        let k: u8 = kani::any();
        let v: u64 = kani::any();
        kani::assume(k < 3);
        let end = mk_bound(k, v);
        let r = (Bound::<u64>::Unbounded, end);
        let e = range_end_inc(&r);
        match end {
            Bound::Included(x) => assert!(e == Some(x)),
            Bound::Excluded(x) => {
                // inclusive end of `..x`; for x = 0 the range is empty and any value that skips nothing wrongly is acceptable,
                // but the call must return (the property: bounds at 0 never crash)
                if x > 0 { assert!(e == Some(x - 1)); }
            }
            Bound::Unbounded => assert!(e.is_none()),
        }
        kani::cover!(k == 1 && v == 0);
        kani::cover!(k == 0 && v == u64::MAX);
    }

// @common
    use crate::verif_ref::{self as vr, REntry};
    use std::io::Cursor;
    use crate::verif_io::FixR;

    /// N symbolic entries in a fixed drawing order
    fn any_entries<const N: usize>() -> [REntry; N] {
        let mut e = [REntry { tile_id: 0, offset: 0, length: 1, run_length: 0 }; N];
        let mut i = 0;
        while i < N {
            e[i].tile_id = kani::any();
            e[i].offset = kani::any();
            e[i].length = kani::any();
            e[i].run_length = kani::any();
            i += 1;
        }
        e
    }

    /// validity + the harness bound: fields fit the width class `w` (canonical LEB128 widths), runs <= max_run
    fn assume_valid_in_class<const N: usize>(e: &[REntry; N], w: &[[usize; N]; 4], max_run: u32, tiles: bool) {
        let raw = vr::raw_columns(e);
        let mut i = 0;
        while i < N {
            kani::assume(e[i].length >= 1);
            kani::assume(e[i].run_length <= max_run);
            if tiles { kani::assume(e[i].run_length >= 1); } else { kani::assume(e[i].run_length == 0); }
            if i > 0 {
                let span = if e[i - 1].run_length == 0 { 1 } else { e[i - 1].run_length as u64 };
                kani::assume(e[i].tile_id >= e[i - 1].tile_id && e[i].tile_id - e[i - 1].tile_id >= span);
            }
            kani::assume(e[i].tile_id <= u64::MAX - 8);
            kani::assume(e[i].offset <= u64::MAX - (1u64 << 33));
            let mut c = 0;
            while c < 4 {
                kani::assume(raw[c][i] >= vr::class_lo(w[c][i]) && raw[c][i] <= vr::class_hi(w[c][i]));
                c += 1;
            }
            i += 1;
        }
    }

    fn put_dir<const N: usize, const M: usize>(img: &mut [u8; M], at: usize, e: &[REntry; N], w: &[[usize; N]; 4]) -> usize {
        let raw = vr::raw_columns(e);
        vr::put_columns(img, at, &raw, w)
    }

    fn in_range(r: &(Bound<u64>, Bound<u64>), t: u64) -> bool {
        let lo_ok = match r.0 { Bound::Included(a) => t >= a, Bound::Excluded(a) => t > a, Bound::Unbounded => true };
        let hi_ok = match r.1 { Bound::Included(b) => t <= b, Bound::Excluded(b) => t < b, Bound::Unbounded => true };
        lo_ok && hi_ok
    }

    /// expected map content for probe t over a flat list of tile entries (first match; entries are disjoint)
    fn expect<const N: usize>(e: &[REntry; N], t: u64) -> Option<(u64, u32)> {
        match vr::ref_find(e, N, t) { Some(i) => Some((e[i].offset, e[i].length)), None => None }
    }

    fn got(m: &HashMap<u64, OffsetLength, RandomState>, t: u64) -> Option<(u64, u32)> {
        match m.get(&t) { Some(v) => Some((v.offset, v.length)), None => None }
    }

// @common
    /// Walker harnesses replace `Directory::from_reader` by a FIXED-SHAPE REFERENCE PARSER (the crate's parser
    /// is checked against the same reference under C05/C08): the image holds real spec-encoded directories of
    /// exactly 2 (resp. 1) entries in the fixed layout W2 (every varint padded to a fixed width), the stub reads
    /// exactly that many bytes at the reader's current position, requires the requested length to be the image
    /// length of such a directory and decodes it with /verif's reference decoder. Unlike the crate's parser it has
    /// no input-dependent loop or allocation, which is what symbolic execution of the walker needs. In the native
    /// replay build the stub attribute is dropped and the crate's own parser reads the same image.
    const W2: [usize; 4] = [10, 1, 5, 10];
    const L2: usize = 1 + 2 * (10 + 1 + 5 + 10);
    const L1: usize = 1 + (10 + 1 + 5 + 10);

    fn stub_from_reader2(input: &mut impl Read, length: u64, compression: Compression) -> Result<Directory> {
        let mut b = [0u8; L2];
        if length != L2 as u64 || compression != Compression::None {
            return Err(std::io::Error::from(std::io::ErrorKind::InvalidData));
        }
        input.read_exact(&mut b)?;
        match vr::ref_decode_fixed::<2>(&b, &W2) {
            None => Err(std::io::Error::from(std::io::ErrorKind::InvalidData)),
            Some(d) => {
                let mut v = Vec::with_capacity(2);
                v.push(crate::Entry { tile_id: d[0].tile_id, offset: d[0].offset, length: d[0].length, run_length: d[0].run_length });
                v.push(crate::Entry { tile_id: d[1].tile_id, offset: d[1].offset, length: d[1].length, run_length: d[1].run_length });
                Ok(Directory::from(v))
            }
        }
    }

    fn stub_from_reader1(input: &mut impl Read, length: u64, compression: Compression) -> Result<Directory> {
        let mut b = [0u8; L1];
        if length != L1 as u64 || compression != Compression::None {
            return Err(std::io::Error::from(std::io::ErrorKind::InvalidData));
        }
        input.read_exact(&mut b)?;
        match vr::ref_decode_fixed::<1>(&b, &W2) {
            None => Err(std::io::Error::from(std::io::ErrorKind::InvalidData)),
            Some(d) => {
                let mut v = Vec::with_capacity(1);
                v.push(crate::Entry { tile_id: d[0].tile_id, offset: d[0].offset, length: d[0].length, run_length: d[0].run_length });
                Ok(Directory::from(v))
            }
        }
    }

    fn put2<const M: usize>(img: &mut [u8; M], at: usize, e: &[REntry; 2]) {
        let raw = vr::raw_columns(e);
        let w = [[W2[0]; 2], [W2[1]; 2], [W2[2]; 2], [W2[3]; 2]];
        vr::put_columns(img, at, &raw, &w);
    }
    fn put1<const M: usize>(img: &mut [u8; M], at: usize, e: &[REntry; 1]) {
        let raw = vr::raw_columns(e);
        let w = [[W2[0]; 1], [W2[1]; 1], [W2[2]; 1], [W2[3]; 1]];
        vr::put_columns(img, at, &raw, &w);
    }

    /// Value mode of an instance: 0 = offsets symbolic / lengths concrete, 1 = lengths symbolic / offsets concrete.
    /// (With BOTH fields of both entries symbolic CBMC's propositional reduction of the walker harness exceeds
    /// 40 GB - measured; each field alone takes seconds. The walker never combines an offset with a length.)
    fn fix_values(e: &mut [REntry; 2], mode: u8, salt: u64) {
        if mode == 0 {
            e[0].length = 2 + salt as u32;
            e[1].length = 4 + salt as u32;
        } else {
            e[0].offset = 11 + salt;
            e[1].offset = 3 + salt;
        }
    }

    /// spec validity of a two-entry directory + harness bound on run lengths
    fn assume_dir(e: &[REntry; 2], tiles: bool, max_run: u32) {
        let mut i = 0;
        while i < 2 {
            kani::assume(e[i].length >= 1);
            if tiles { kani::assume(e[i].run_length >= 1 && e[i].run_length <= max_run); } else { kani::assume(e[i].run_length == 0); }
            kani::assume(e[i].tile_id <= u64::MAX - 8);
            kani::assume(e[i].offset <= u64::MAX - (1u64 << 33));
            i += 1;
        }
        let span = if e[0].run_length == 0 { 1 } else { e[0].run_length as u64 };
        kani::assume(e[1].tile_id >= e[0].tile_id && e[1].tile_id - e[0].tile_id >= span);
    }

// @h id=H3.1a-m$m prop=C03 rep="m:0-1" quick="0-1" cap=900 mem=20 unwind=11 uw="rec:read_dir_rec=1;read_dir_rec=3" stubs="Directory::from_reader -> fixed-shape reference parser (2 entries, padded varints; the crate's parser is checked against the same reference under C05/C08)" bounds="root-only directory of 2 tile entries: any ids, run lengths 1..2 (<= 4 tiles), mode $m (0: any offsets incl. shared/decreasing/overlapping, lengths fixed; 1: any lengths, offsets fixed); root at offset 3 of the stream; probe id any u64; recursion bound 1 (no pointer present)"
    /// the full walk yields exactly the entry whose run covers the probe id (offset and length as stored), nothing for any other id
    #[kani::proof]
    #[kani::stub(crate::directory::Directory::from_reader, stub_from_reader2)]
    fn h3_1a_full_root_only_m$m() {
        let mut e = any_entries::<2>();
        let t: u64 = kani::any();
        assume_dir(&e, true, 2);
        fix_values(&mut e, $m, 0);
        let mut img = [0u8; 3 + L2];
        put2(&mut img, 3, &e);
        let full = read_directories(&mut Cursor::new(&img[..]), Compression::None, (3, L2 as u64), 0, ..);
        assert!(full.is_ok());
        let full = full.unwrap();
        assert!(got(&full, t) == expect(&e, t));
        kani::cover!(got(&full, t).is_some());
        kani::cover!(got(&full, t).is_none());
        kani::cover!(e[0].run_length == 2 && t == e[0].tile_id + 1 && got(&full, t).is_some());
        kani::cover!($m != 0 || e[1].offset < e[0].offset);
        kani::cover!($m != 0 || e[1].offset == e[0].offset);
        kani::cover!($m != 1 || e[1].length == u32::MAX);
        kani::cover!(e[1].tile_id > (1u64 << 62));
        std::mem::forget(full);
    }

// @h id=H11.2-m$m prop=C11 rep="m:0-1" quick="0-1" cap=900 mem=20 unwind=11 uw="rec:read_dir_rec=1;read_dir_rec=4" stubs="Directory::from_reader -> fixed-shape reference parser (see H3.1a)" bounds="root-only directory of 2 tile entries (any ids, run lengths 1..3 with at most 4 tiles in total, value mode $m); filter = every combination of {Included,Excluded,Unbounded}^2 with any u64 endpoints (empty, inverted, 0, u64::MAX included); probe id any u64. 'Full opening' is the reference expectation that H3.1a proves the unfiltered walk equal to"
    /// range-filtered walk == full walk restricted to the range, for a symbolic probe id; never an error where the full walk succeeds
    #[kani::proof]
    #[kani::stub(crate::directory::Directory::from_reader, stub_from_reader2)]
    fn h11_2_partial_root_only_m$m() {
        let mut e = any_entries::<2>();
        let ks: u8 = kani::any();
        let ke: u8 = kani::any();
        let a: u64 = kani::any();
        let b: u64 = kani::any();
        let t: u64 = kani::any();
        kani::assume(ks < 3 && ke < 3);
        assume_dir(&e, true, 3);
        kani::assume(e[0].run_length + e[1].run_length <= 4);
        fix_values(&mut e, $m, 0);
        let mut img = [0u8; 3 + L2];
        put2(&mut img, 3, &e);
        let range = (mk_bound(ks, a), mk_bound(ke, b));
        let part = read_directories(&mut Cursor::new(&img[..]), Compression::None, (3, L2 as u64), 0, range);
        assert!(part.is_ok());
        let part = part.unwrap();
        let want = if in_range(&range, t) { expect(&e, t) } else { None };
        assert!(got(&part, t) == want);
        kani::cover!(in_range(&range, t) && got(&part, t).is_some());
        kani::cover!(!in_range(&range, t) && expect(&e, t).is_some());
        kani::cover!(ke == 1 && b == 0);
        kani::cover!(ks == 1 && a == u64::MAX);
        kani::cover!(ks == 0 && ke == 0 && a > b);
        kani::cover!(e[0].run_length == 2 && t == e[0].tile_id + 1 && got(&part, t).is_some());
        // a range strictly inside a run of three
        kani::cover!(e[0].run_length == 3 && ks == 0 && ke == 0 && a == e[0].tile_id + 1 && b == a && got(&part, a).is_some());
        std::mem::forget(part);
    }

// @common
    const LEAF_BASE: usize = 60;
    const IMG3: usize = 60 + 2 * L2 + 8;
    /// shared set-up of the two-leaf image: root (2 pointers) at offset 2; leaf section at 60 after a gap;
    /// leaf 0 at section offset L2+5, leaf 1 at section offset 1 (reverse order, gaps). Returns the flat tile entries.
    fn two_leaf_image(img: &mut [u8; IMG3], mode: u8) -> [REntry; 4] {
        let mut l0 = any_entries::<2>();
        let mut l1 = any_entries::<2>();
        assume_dir(&l0, true, 1);
        assume_dir(&l1, true, 1);
        kani::assume(l1[0].tile_id > l0[1].tile_id);
        fix_values(&mut l0, mode, 0);
        fix_values(&mut l1, mode, 20);
        let o0 = (L2 + 5) as u64;
        let o1 = 1u64;
        let root = [
            REntry { tile_id: l0[0].tile_id, offset: o0, length: L2 as u32, run_length: 0 },
            REntry { tile_id: l1[0].tile_id, offset: o1, length: L2 as u32, run_length: 0 },
        ];
        put2(img, 2, &root);
        put2(img, LEAF_BASE + o0 as usize, &l0);
        put2(img, LEAF_BASE + o1 as usize, &l1);
        [l0[0], l0[1], l1[0], l1[1]]
    }

// @h id=H3.1b-m$m prop=C03 rep="m:0-1" quick="9-9" cap=1500 mem=24 unwind=11 uw="rec:read_dir_rec=2;read_dir_rec=3" stubs="Directory::from_reader -> fixed-shape reference parser (see H3.1a)" bounds="root of 2 leaf pointers + 2 leaves of 2 tile entries each, run length 1 (4 tiles), any ids, value mode $m; leaf section at offset 60 after a gap, leaves in reverse order with gaps (layout concrete); probe any u64; recursion bound 2 (depth-2 tree)"
    /// nested leaf directories: the walk finds each leaf at leaf-section offset + pointer offset and yields exactly the addressed entries
    #[kani::proof]
    #[kani::stub(crate::directory::Directory::from_reader, stub_from_reader2)]
    fn h3_1b_full_two_leaves_m$m() {
        let mut img = [0u8; IMG3];
        let flat = two_leaf_image(&mut img, $m);
        let t: u64 = kani::any();
        let full = read_directories(&mut Cursor::new(&img[..]), Compression::None, (2, L2 as u64), LEAF_BASE as u64, ..);
        assert!(full.is_ok());
        let full = full.unwrap();
        assert!(got(&full, t) == expect(&flat, t));
        kani::cover!(got(&full, t).is_some() && t == flat[3].tile_id);
        kani::cover!(got(&full, t).is_some() && t == flat[0].tile_id);
        kani::cover!(got(&full, t).is_none());
        std::mem::forget(full);
    }

// @h id=H11.3-m$m prop=C11,C03 rep="m:0-1" quick="9-9" cap=1500 mem=24 unwind=11 uw="rec:read_dir_rec=2;read_dir_rec=3" stubs="Directory::from_reader -> fixed-shape reference parser (see H3.1a)" bounds="the two-leaf tree of H3.1b; filter = all 9 bound-kind combinations, any u64 endpoints; probe any u64"
    /// leaf directories beyond the range end are skipped and the others walked: partial == full restricted to the range (skip branch taken and not taken)
    #[kani::proof]
    #[kani::stub(crate::directory::Directory::from_reader, stub_from_reader2)]
    fn h11_3_partial_two_leaves_m$m() {
        let mut img = [0u8; IMG3];
        let flat = two_leaf_image(&mut img, $m);
        let ks: u8 = kani::any();
        let ke: u8 = kani::any();
        let a: u64 = kani::any();
        let b: u64 = kani::any();
        let t: u64 = kani::any();
        kani::assume(ks < 3 && ke < 3);
        let range = (mk_bound(ks, a), mk_bound(ke, b));
        let part = read_directories(&mut Cursor::new(&img[..]), Compression::None, (2, L2 as u64), LEAF_BASE as u64, range);
        assert!(part.is_ok());
        let part = part.unwrap();
        let want = if in_range(&range, t) { expect(&flat, t) } else { None };
        assert!(got(&part, t) == want);
        let end_inc = match range.1 { Bound::Included(x) => x, Bound::Excluded(x) => x.saturating_sub(1), Bound::Unbounded => u64::MAX };
        kani::cover!(flat[2].tile_id > end_inc && flat[0].tile_id <= end_inc);   // second leaf skipped
        kani::cover!(flat[2].tile_id == end_inc && got(&part, flat[2].tile_id).is_some()); // boundary: not skipped
        kani::cover!(got(&part, t).is_some() && t == flat[3].tile_id);
        std::mem::forget(part);
    }

// @h id=H8.4-k$k prop=C08,C03 rep="k:0,1,3" quick="0,1,3" cap=900 mem=16 unwind=11 uw="read_dir_rec=3" checks=std recfail=cex stubs="Directory::from_reader -> fixed-shape reference parser (1 entry)" bounds="pointer-graph hazard class k of {0: leaf pointer to its own directory; 1: two directories pointing at each other; 2: leaf_dir_offset = 2^64-1 and any pointer offset >= 1 (sum overflows); 3: chain root -> leaf -> leaf -> tile entry (depth 3, legal)}; recursion bound 11 > the walk's depth limit of 4"
    /// hostile leaf pointers (cycles, offsets near 2^64) are answered with an error, legal nesting with a value: no crash, no unbounded recursion
    #[kani::proof]
    #[kani::stub(crate::directory::Directory::from_reader, stub_from_reader1)]
    fn h8_4_pointer_graph_k$k() {
        let ptr = |id: u64, off: u64| [REntry { tile_id: id, offset: off, length: L1 as u32, run_length: 0 }];
        let tile = [REntry { tile_id: 9, offset: 0, length: 3, run_length: 1 }];
        let mut ldo: u64 = 0;
        let mut img = [0u8; 3 * L1];
        if $k == 0 {
            put1(&mut img, 0, &ptr(0, 0));
        } else if $k == 1 {
            put1(&mut img, 0, &ptr(0, L1 as u64));
            put1(&mut img, L1, &ptr(0, 0));
        } else if $k == 2 {
            let off: u64 = kani::any();
            ldo = u64::MAX;
            kani::assume(off >= 1 && off < u64::MAX);
            put1(&mut img, 0, &ptr(0, off));
        } else {
            put1(&mut img, 0, &ptr(0, L1 as u64));
            put1(&mut img, L1, &ptr(0, 2 * L1 as u64));
            put1(&mut img, 2 * L1, &tile);
        }
        let r = read_directories(&mut Cursor::new(&img[..]), Compression::None, (0, L1 as u64), ldo, ..);
        if $k == 3 {
            assert!(r.is_ok());
        } else {
            assert!(r.is_err());
        }
        kani::cover!(true);
        std::mem::forget(r);
    }

// @h id=H8.4o prop=C08 tier=quick cap=600 mem=16 unwind=11 uw="rec:read_dir_rec=1;read_dir_rec=3" checks=std stubs="Directory::from_reader -> fixed-shape reference parser (1 entry)" bounds="root = one leaf pointer with any offset >= 1, leaf_dir_offset = 2^64-1 (the sum always leaves u64); recursion bound 1: the walk must reject before descending"
    /// leaf_dir_offset + pointer offset past 2^64 is answered with an error before any descent
    #[kani::proof]
    #[kani::stub(crate::directory::Directory::from_reader, stub_from_reader1)]
    fn h8_4o_leaf_offset_overflow() {
        let off: u64 = kani::any();
        kani::assume(off >= 1 && off < u64::MAX);
        let mut img = [0u8; 3 * L1];
        put1(&mut img, 0, &[REntry { tile_id: 0, offset: off, length: L1 as u32, run_length: 0 }]);
        let r = read_directories(&mut Cursor::new(&img[..]), Compression::None, (0, L1 as u64), u64::MAX, ..);
        assert!(r.is_err());
        kani::cover!(off == 1);
        kani::cover!(off == u64::MAX - 1);
        std::mem::forget(r);
    }

// @h id=H8.7 prop=C08 tier=quick cap=900 mem=20 unwind=11 uw="rec:read_dir_rec=1;read_dir_rec=3" checks=std stubs="Directory::from_reader -> fixed-shape reference parser (see H3.1a)" bounds="root-only directory of 2 tile entries with ARBITRARY ids (incl. ids whose run reaches past 2^64) and run lengths 1..2, fixed offsets/lengths; partial open with every combination of bound kinds and any u64 endpoints"
    /// a range-filtered walk over hostile tile ids (runs reaching past the end of the id space) returns without a crash
    #[kani::proof]
    #[kani::stub(crate::directory::Directory::from_reader, stub_from_reader2)]
    fn h8_7_hostile_ids_partial() {
        let mut e = any_entries::<2>();
        let ks: u8 = kani::any();
        let ke: u8 = kani::any();
        let a: u64 = kani::any();
        let b: u64 = kani::any();
        kani::assume(ks < 3 && ke < 3);
        let mut i = 0;
        while i < 2 {
            kani::assume(e[i].run_length >= 1 && e[i].run_length <= 2);
            e[i].length = 3;
            e[i].offset = 7 * i as u64;
            i += 1;
        }
        kani::assume(e[1].tile_id >= e[0].tile_id);
        let mut img = [0u8; 3 + L2];
        put2(&mut img, 3, &e);
        let range = (mk_bound(ks, a), mk_bound(ke, b));
        let part = read_directories(&mut Cursor::new(&img[..]), Compression::None, (3, L2 as u64), 0, range);
        kani::cover!(part.is_ok() && e[1].tile_id == u64::MAX && e[1].run_length == 2 && ks == 0);
        kani::cover!(part.is_ok() && e[0].tile_id == u64::MAX - 1 && e[0].run_length == 2 && ks == 0 && a == 5);
        std::mem::forget(part);
    }

// @h id=H15.r-k$k prop=C15 rep="k:0-3" quick="0-3" cap=600 mem=16 unwind=11 uw="read_dir_rec=3;FixR=30" stubs="Directory::from_reader -> fixed-shape reference parser (1 entry)" bounds="legal chain root -> leaf -> leaf -> tile entry over a stream in which every operation at or beyond stream position {0, L1, 2*L1, never}[k] fails (the fault hits the root, the first leaf, the second leaf, nothing)"
    /// a directory walk over a stream that starts failing returns an error - never a partial result reported as success
    #[kani::proof]
    #[kani::stub(crate::directory::Directory::from_reader, stub_from_reader1)]
    fn h15_r_walk_faults_k$k() {
        const AT: [u64; 4] = [0, L1 as u64, 2 * L1 as u64, u64::MAX];
        let ptr = |off: u64| [REntry { tile_id: 0, offset: off, length: L1 as u32, run_length: 0 }];
        let tile = [REntry { tile_id: 9, offset: 0, length: 3, run_length: 1 }];
        let mut img = [0u8; 3 * L1];
        put1(&mut img, 0, &ptr(L1 as u64));
        put1(&mut img, L1, &ptr(2 * L1 as u64));
        put1(&mut img, 2 * L1, &tile);
        let mut rd = FixR::new(&img, (3 * L1) as u64);
        rd.fail_pos = AT[$k];
        let r = read_directories(&mut rd, Compression::None, (0, L1 as u64), 0, ..);
        match &r {
            Ok(m) => {
                assert!(!rd.failed);
                assert!(m.len() == 1);
            }
            Err(_) => assert!(rd.failed),
        }
        kani::cover!(r.is_ok() == ($k == 3));
        kani::cover!(rd.ops >= 1);
        std::mem::forget(r);
    }

// @h id=H20.w prop=C20 tier=quick cap=600 mem=16 unwind=11 uw="read_dir_rec=3;FixR=30" stubs="Directory::from_reader -> fixed-shape reference parser (1 entry)" bounds="chain root -> leaf -> leaf -> one tile entry (any id/offset/length, run length 1) in a stream whose directory images are followed by a 'tile data' region; the recording stream notes every byte range read"
    /// the directory walk performed on opening reads only the directory sections it was told about - never a byte of the tile-data section
    #[kani::proof]
    #[kani::stub(crate::directory::Directory::from_reader, stub_from_reader1)]
    fn h20_w_walk_stays_in_directories() {
        let mut tile = any_entries::<1>();
        tile[0].run_length = 1;
        kani::assume(tile[0].length >= 1 && tile[0].offset < (1u64 << 62));
        let ptr = |off: u64| [REntry { tile_id: 0, offset: off, length: L1 as u32, run_length: 0 }];
        let mut img = [0x77u8; 3 * L1 + 16];
        put1(&mut img, 0, &ptr(L1 as u64));
        put1(&mut img, L1, &ptr(2 * L1 as u64));
        put1(&mut img, 2 * L1, &tile);
        let mut rd = FixR::new(&img, (3 * L1 + 16) as u64);
        rd.forbid_lo = (3 * L1) as u64;      // tile data section
        rd.forbid_hi = (3 * L1 + 16) as u64;
        let r = read_directories(&mut rd, Compression::None, (0, L1 as u64), 0, ..);
        assert!(r.is_ok());
        assert!(!rd.touched_forbidden);
        assert!(rd.lo == 0 && rd.hi == (3 * L1) as u64);
        kani::cover!(tile[0].offset == 5 && tile[0].tile_id == 3);
        kani::cover!(rd.ops == 6);
        std::mem::forget(r);
    }

// @h id=H11.4 prop=C11,C03 tier=quick cap=800 mem=16 unwind=11 uw="rec:read_dir_rec=2;read_dir_rec=4" stubs="Directory::from_reader -> fixed-shape reference parser (1 entry)" bounds="root of ONE leaf pointer + a leaf of one tile entry (any id, run length 1..3, any offset, length fixed), leaf section at offset 40 with the leaf at pointer offset 2; filter = all 9 bound-kind combinations with any u64 endpoints; probe any u64; recursion bound 2"
    /// a leaf directory is skipped exactly when its first id lies beyond the inclusive range end, and what is kept equals the full walk restricted to the range (leaf-skip branch taken / not taken / on the boundary)
    #[kani::proof]
    #[kani::stub(crate::directory::Directory::from_reader, stub_from_reader1)]
    fn h11_4_one_leaf_skip() {
        let mut l = any_entries::<1>();
        let ks: u8 = kani::any();
        let ke: u8 = kani::any();
        let a: u64 = kani::any();
        let b: u64 = kani::any();
        let t: u64 = kani::any();
        kani::assume(ks < 3 && ke < 3);
        kani::assume(l[0].run_length >= 1 && l[0].run_length <= 3 && l[0].tile_id <= u64::MAX - 8);
        kani::assume(l[0].offset <= u64::MAX - (1u64 << 33));
        l[0].length = 6;
        let root = [REntry { tile_id: l[0].tile_id, offset: 2, length: L1 as u32, run_length: 0 }];
        let mut img = [0u8; 40 + 2 + L1];
        put1(&mut img, 1, &root);
        put1(&mut img, 42, &l);
        let range = (mk_bound(ks, a), mk_bound(ke, b));
        let part = read_directories(&mut Cursor::new(&img[..]), Compression::None, (1, L1 as u64), 40, range);
        assert!(part.is_ok());
        let part = part.unwrap();
        let want = if in_range(&range, t) { expect(&l, t) } else { None };
        assert!(got(&part, t) == want);
        let end_inc = match range.1 { Bound::Included(x) => x, Bound::Excluded(x) => x.saturating_sub(1), Bound::Unbounded => u64::MAX };
        kani::cover!(l[0].tile_id > end_inc);                                            // leaf skipped
        kani::cover!(l[0].tile_id == end_inc && got(&part, l[0].tile_id).is_some());     // boundary: not skipped
        kani::cover!(l[0].run_length == 3 && ks == 0 && ke == 0 && a == l[0].tile_id + 1 && b == a && got(&part, a).is_some());
        kani::cover!(ke == 1 && b == 0);
        std::mem::forget(part);
    }
