// @common
    use std::ops::Bound;

    fn mk_bound(kind: u8, v: u64) -> Bound<u64> {
        match kind {
            0 => Bound::Included(v),
            1 => Bound::Excluded(v),
            _ => Bound::Unbounded,
        }
    }

// @h id=H11.1 prop=C11 tier=quick cap=120 checks=std bounds="end bound kind in {Included,Excluded,Unbounded} x every u64 endpoint (full domain)"
    /// range_end_inc never panics and returns the inclusive end for every bound kind and endpoint.
    #[kani::proof]
    fn h11_1_range_end_inc() {
        let k: u8 = kani::any();
        let v: u64 = kani::any();
        kani::assume(k < 3);
        let end = mk_bound(k, v);
        let r = (Bound::<u64>::Unbounded, end);
        let e = range_end_inc(&r);
        match end {
            Bound::Included(x) => assert!(e == Some(x)),
            Bound::Excluded(x) => {
                // inclusive end of `..x`; for x = 0 the range is empty and any value that skips nothing wrongly is acceptable,
                // but the call must return (the property: bounds at 0 never crash)
                if x > 0 { assert!(e == Some(x - 1)); }
            }
            Bound::Unbounded => assert!(e.is_none()),
        }
        kani::cover!(k == 1 && v == 0);
        kani::cover!(k == 0 && v == u64::MAX);
    }
