// @common
    use crate::verif_ref::base;

// @h id=H7.7 prop=C07,C08 tier=quick cap=900 mem=10 unwind=34 checks=std bounds="archive with one tile at any valid id (< first id of zoom 32), 1 content byte; query any (z,x,y) in u8 x u64 x u64 that is NOT a tile coordinate"
    /// a lookup by coordinates that do not denote a tile reports no tile or an error: never another tile's bytes, never a crash
    #[kani::proof]
    fn h7_7_out_of_grid_lookup() {
        let sid: u64 = kani::any();
        let c: u8 = kani::any();
        let z: u8 = kani::any();
        let x: u64 = kani::any();
        let y: u64 = kani::any();
        kani::assume(sid < base(32));
        let in_grid = z <= 31 && x < (1u64 << z) && y < (1u64 << z);
        kani::assume(!in_grid);
        let mut p = PMTiles::new(TileType::Png, Compression::None);
        p.add_tile(sid, vec![c]).unwrap();
        let r = p.get_tile(x, y, z);
        match &r {
            Ok(v) => assert!(v.is_none()),
            Err(_) => {}
        }
        kani::cover!(z == 2 && x == 4 && y == 0 && sid == 5);
        kani::cover!(z == 255);
        kani::cover!(z == 32 && x == 0 && y == 0);
        kani::cover!(z == 31 && x == u64::MAX);
        std::mem::forget(r);
        std::mem::forget(p);
    }

// @common
    use crate::verif_io::FixW;

    /// Header recorder (replaces `Header::to_writer` in the archive-writer harnesses: the deku/bitvec header codec
    /// cannot be symbolically executed even on constants): records the header FIELDS the writer assembled and
    /// moves 127 placeholder bytes with one write_all, like the real function. The header's byte layout is not
    /// checked by these harnesses. In the native replay the real codec runs and the fields are read back from the
    /// real 127 bytes.
    static mut CAP_HDR: [u64; 11] = [0; 11];
    static mut CAP_MISC: [u8; 8] = [0; 8];
    static mut CAP_SET: u32 = 0;
    fn capture(h: &Header) {
        unsafe {
            CAP_HDR = [h.root_directory_offset, h.root_directory_length, h.json_metadata_offset, h.json_metadata_length,
                h.leaf_directories_offset, h.leaf_directories_length, h.tile_data_offset, h.tile_data_length,
                h.num_addressed_tiles, h.num_tile_entries, h.num_tile_content];
            CAP_MISC = [h.spec_version, h.clustered as u8, h.internal_compression as u8, h.tile_compression as u8,
                h.tile_type as u8, h.min_zoom, h.max_zoom, h.center_zoom];
            CAP_SET += 1;
        }
    }
    fn hdr_to_writer_stub(h: &Header, output: &mut impl Write) -> std::io::Result<()> {
        capture(h);
        let buf = [0xAAu8; 127];
        output.write_all(&buf)?;
        Ok(())
    }

// @h id=H2.1-P$p prop=C02,C17,C18 rep="p:0-3" quick="0-3" quick_C02="0,2" cap=900 mem=16 unwind=6 uw="FixW=130;h2_1_writer=62" stubs="Header::to_writer -> field recorder + 127 placeholder bytes in one write_all (header byte layout not checked); internal compression None; metadata = empty object" bounds="empty archive (T = 0 tiles), start position P = {0,1,7,60}[$p] into a stream pre-filled with 0x55; tile type, tile compression and the three zoom bytes symbolic"
    /// archive writer on an empty archive: header fields describe contiguous in-file sections relative to P, counters zero, bytes before P untouched, stream left at the archive's end, and the header transfer is the last write - nothing earlier touches [P, P+127)
    #[kani::proof]
    #[kani::stub(crate::header::Header::to_writer, hdr_to_writer_stub)]
    fn h2_1_writer_empty_p$p() {
        const PS: [u64; 4] = [0, 1, 7, 60];
        let pstart: u64 = PS[$p];
        let tt: u8 = kani::any();
        let tc: u8 = kani::any();
        let z0: u8 = kani::any();
        let z1: u8 = kani::any();
        let z2: u8 = kani::any();
        let mut p = PMTiles::new(
            match tt % 5 { 0 => TileType::Unknown, 1 => TileType::Mvt, 2 => TileType::Png, 3 => TileType::Jpeg, _ => TileType::WebP },
            match tc % 5 { 0 => Compression::Unknown, 1 => Compression::None, 2 => Compression::GZip, 3 => Compression::Brotli, _ => Compression::ZStd },
        );
        p.internal_compression = Compression::None;
        p.min_zoom = z0;
        p.max_zoom = z1;
        p.center_zoom = z2;
        let want_tt = p.tile_type as u8;
        let want_tc = p.tile_compression as u8;
        let mut arr = [0x55u8; 200];
        let mut out = FixW::new(&mut arr, pstart);
        out.end = 200; // the stream is pre-filled: it already has 200 bytes, SeekFrom::End refers to that
        let r = p.to_writer(&mut out);
        assert!(r.is_ok());
        std::mem::forget(r);
        let (pos, end, lw_pos, lw_len, min_prev, writes) = (out.pos, out.end, out.last_write_pos, out.last_write_len, out.min_pos_prev, out.writes);
        #[cfg(verif_replay)]
        {
            let h = Header::from_bytes(&arr[pstart as usize..pstart as usize + 127]).unwrap();
            capture(&h);
        }
        let h = unsafe { CAP_HDR };
        let misc = unsafe { CAP_MISC };
        assert!(unsafe { CAP_SET } == 1);
        // C02/C18: sections relative to P, contiguous, inside the file
        assert!(h[0] == 127 && h[1] == 1);               // root: one byte (entry count 0)
        assert!(h[2] == 128 && h[3] == 2);               // metadata: "{}"
        assert!(h[4] == 130 && h[5] == 0);               // no leaf section
        assert!(h[6] == 130 && h[7] == 0);               // no tile data
        assert!(h[8] == 0 && h[9] == 0 && h[10] == 0);   // counters
        assert!(misc[0] == 3 && misc[1] == 1);           // version 3, clustered
        assert!(misc[2] == Compression::None as u8 && misc[3] == want_tc && misc[4] == want_tt);
        assert!(misc[5] == z0 && misc[6] == z1 && misc[7] == z2);
        let ps = pstart as usize;
        assert!(arr[ps + 127] == 0);
        assert!(arr[ps + 128] == b'{' && arr[ps + 129] == b'}');
        // C18: bytes before P untouched, stream left at the end of the archive
        let mut i = 0;
        while i < 60 {
            if i < ps { assert!(arr[i] == 0x55); }
            i += 1;
        }
        assert!(pos == pstart + 130 && end == 200);
        assert!(arr[ps + 130] == 0x55);
        // C17: the header transfer is the last write, one 127-byte write at P; no earlier write went below P+127
        assert!(lw_pos == pstart && lw_len == 127);
        assert!(writes >= 3 && min_prev >= pstart + 127);
        kani::cover!(tt % 5 == 2 && tc % 5 == 4);
        kani::cover!(z1 == 255);
    }

// @h id=H15.w prop=C15 tier=quick cap=900 mem=16 unwind=6 uw="FixW=130" stubs="Header::to_writer -> field recorder (as H2.1)" bounds="empty archive, every fail-stop point k (operation k and all later stream operations fail; k any u32, the fault-free run has fewer than 16 operations)"
    /// if the stream starts failing at any operation the archive writer returns an error: never a panic, never success for an incomplete transfer
    #[kani::proof]
    #[kani::stub(crate::header::Header::to_writer, hdr_to_writer_stub)]
    fn h15_w_writer_faults() {
        let k: u32 = kani::any();
        let mut p = PMTiles::new(TileType::Png, Compression::None);
        p.internal_compression = Compression::None;
        let mut arr = [0x55u8; 200];
        let mut out = FixW::new(&mut arr, 0);
        out.fail_from = k;
        let r = p.to_writer(&mut out);
        let ok = r.is_ok();
        std::mem::forget(r);
        assert!(ok == !out.failed);
        assert!(out.ops <= 16);
        if ok { assert!(k >= out.ops); }
        kani::cover!(ok);
        kani::cover!(!ok && k == 0);
        kani::cover!(!ok && k + 1 == out.ops);
        kani::cover!(!ok && k == 3);
    }
