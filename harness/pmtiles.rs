// @common
    use crate::verif_ref::base;

// @h id=H7.7 prop=C07,C08 tier=quick cap=900 mem=10 unwind=34 checks=std bounds="archive with one tile at any valid id (< first id of zoom 32), 1 content byte; query any (z,x,y) in u8 x u64 x u64 that is NOT a tile coordinate"
    /// a lookup by coordinates that do not denote a tile reports no tile or an error: never another tile's bytes, never a crash
    #[kani::proof]
    fn h7_7_out_of_grid_lookup() {
        let sid: u64 = kani::any();
        let c: u8 = kani::any();
        let z: u8 = kani::any();
        let x: u64 = kani::any();
        let y: u64 = kani::any();
        kani::assume(sid < base(32));
        let in_grid = z <= 31 && x < (1u64 << z) && y < (1u64 << z);
        kani::assume(!in_grid);
        let mut p = PMTiles::new(TileType::Png, Compression::None);
        p.add_tile(sid, vec![c]).unwrap();
        let r = p.get_tile(x, y, z);
        match &r {
            Ok(v) => assert!(v.is_none()),
            Err(_) => {}
        }
        kani::cover!(z == 2 && x == 4 && y == 0 && sid == 5);
        kani::cover!(z == 255);
        kani::cover!(z == 32 && x == 0 && y == 0);
        kani::cover!(z == 31 && x == u64::MAX);
        std::mem::forget(r);
        std::mem::forget(p);
    }
