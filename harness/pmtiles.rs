// @common
    use crate::verif_ref::base;

// @h id=H7.7 prop=C07,C08 tier=quick cap=900 mem=10 unwind=34 checks=std bounds="archive with one tile at any valid id (< first id of zoom 32), 1 content byte; query any (z,x,y) in u8 x u64 x u64 that is NOT a tile coordinate"
    /// a lookup by coordinates that do not denote a tile reports no tile or an error: never another tile's bytes, never a crash
    #[kani::proof]
    fn h7_7_out_of_grid_lookup() {
        let sid: u64 = kani::any();
        let c: u8 = kani::any();
        let z: u8 = kani::any();
        let x: u64 = kani::any();
        let y: u64 = kani::any();
        kani::assume(sid < base(32));
        let in_grid = z <= 31 && x < (1u64 << z) && y < (1u64 << z);
        kani::assume(!in_grid);
        let mut p = PMTiles::new(TileType::Png, Compression::None);
        p.add_tile(sid, vec![c]).unwrap();
        let r = p.get_tile(x, y, z);
        match &r {
            Ok(v) => assert!(v.is_none()),
            Err(_) => {}
        }
        kani::cover!(z == 2 && x == 4 && y == 0 && sid == 5);
        kani::cover!(z == 255);
        kani::cover!(z == 32 && x == 0 && y == 0);
        kani::cover!(z == 31 && x == u64::MAX);
        std::mem::forget(r);
        std::mem::forget(p);
    }

// @common
    use crate::verif_io::FixW;

    /// Header recorder (replaces `Header::to_writer` in the archive-writer harnesses: the deku/bitvec header codec
    /// cannot be symbolically executed even on constants): records the header FIELDS the writer assembled and
    /// moves 127 placeholder bytes with one write_all, like the real function. The header's byte layout is not
    /// checked by these harnesses. In the native replay the real codec runs and the fields are read back from the
    /// real 127 bytes.
    static mut CAP_HDR: [u64; 11] = [0; 11];
    static mut CAP_MISC: [u8; 8] = [0; 8];
    static mut CAP_SET: u32 = 0;
    fn capture(h: &Header) {
        unsafe {
            CAP_HDR = [h.root_directory_offset, h.root_directory_length, h.json_metadata_offset, h.json_metadata_length,
                h.leaf_directories_offset, h.leaf_directories_length, h.tile_data_offset, h.tile_data_length,
                h.num_addressed_tiles, h.num_tile_entries, h.num_tile_content];
            CAP_MISC = [h.spec_version, h.clustered as u8, h.internal_compression as u8, h.tile_compression as u8,
                h.tile_type as u8, h.min_zoom, h.max_zoom, h.center_zoom];
            CAP_SET += 1;
        }
    }
    fn hdr_to_writer_stub(h: &Header, output: &mut impl Write) -> std::io::Result<()> {
        capture(h);
        let buf = [0xAAu8; 127];
        output.write_all(&buf)?;
        Ok(())
    }

// @h id=H2.1-P$p prop=C02,C17,C18 rep="p:0-3" quick="0-3" quick_C02="0,2" cap=900 mem=16 unwind=6 uw="FixW=130;h2_1_writer=62" stubs="Header::to_writer -> field recorder + 127 placeholder bytes in one write_all (header byte layout not checked); internal compression None; metadata = empty object" bounds="empty archive (T = 0 tiles), start position P = {0,1,7,60}[$p] into a stream pre-filled with 0x55; tile type, tile compression and the three zoom bytes symbolic"
    /// archive writer on an empty archive: header fields describe contiguous in-file sections relative to P, counters zero, bytes before P untouched, stream left at the archive's end, and the header transfer is the last write - nothing earlier touches [P, P+127)
    #[kani::proof]
    #[kani::stub(crate::header::Header::to_writer, hdr_to_writer_stub)]
    fn h2_1_writer_empty_p$p() {
        const PS: [u64; 4] = [0, 1, 7, 60];
        let pstart: u64 = PS[$p];
        let tt: u8 = kani::any();
        let tc: u8 = kani::any();
        let z0: u8 = kani::any();
        let z1: u8 = kani::any();
        let z2: u8 = kani::any();
        let mut p = PMTiles::new(
            match tt % 5 { 0 => TileType::Unknown, 1 => TileType::Mvt, 2 => TileType::Png, 3 => TileType::Jpeg, _ => TileType::WebP },
            match tc % 5 { 0 => Compression::Unknown, 1 => Compression::None, 2 => Compression::GZip, 3 => Compression::Brotli, _ => Compression::ZStd },
        );
        p.internal_compression = Compression::None;
        p.min_zoom = z0;
        p.max_zoom = z1;
        p.center_zoom = z2;
        let want_tt = p.tile_type as u8;
        let want_tc = p.tile_compression as u8;
        let mut arr = [0x55u8; 200];
        let mut out = FixW::new(&mut arr, pstart);
        out.end = 200; // the stream is pre-filled: it already has 200 bytes, SeekFrom::End refers to that
        let r = p.to_writer(&mut out);
        assert!(r.is_ok());
        std::mem::forget(r);
        let (pos, end, lw_pos, lw_len, min_prev, writes) = (out.pos, out.end, out.last_write_pos, out.last_write_len, out.min_pos_prev, out.writes);
        #[cfg(verif_replay)]
        {
            let h = Header::from_bytes(&arr[pstart as usize..pstart as usize + 127]).unwrap();
            capture(&h);
        }
        let h = unsafe { CAP_HDR };
        let misc = unsafe { CAP_MISC };
        assert!(unsafe { CAP_SET } == 1);
        // C02/C18: sections relative to P, contiguous, inside the file
        assert!(h[0] == 127 && h[1] == 1);               // root: one byte (entry count 0)
        assert!(h[2] == 128 && h[3] == 2);               // metadata: "{}"
        assert!(h[4] == 130 && h[5] == 0);               // no leaf section
        assert!(h[6] == 130 && h[7] == 0);               // no tile data
        assert!(h[8] == 0 && h[9] == 0 && h[10] == 0);   // counters
        assert!(misc[0] == 3 && misc[1] == 1);           // version 3, clustered
        assert!(misc[2] == Compression::None as u8 && misc[3] == want_tc && misc[4] == want_tt);
        assert!(misc[5] == z0 && misc[6] == z1 && misc[7] == z2);
        let ps = pstart as usize;
        assert!(arr[ps + 127] == 0);
        assert!(arr[ps + 128] == b'{' && arr[ps + 129] == b'}');
        // C18: bytes before P untouched, stream left at the end of the archive
        let mut i = 0;
        while i < 60 {
            if i < ps { assert!(arr[i] == 0x55); }
            i += 1;
        }
        assert!(pos == pstart + 130 && end == 200);
        assert!(arr[ps + 130] == 0x55);
        // C17: the header transfer is the last write, one 127-byte write at P; no earlier write went below P+127
        assert!(lw_pos == pstart && lw_len == 127);
        assert!(writes >= 3 && min_prev >= pstart + 127);
        kani::cover!(tt % 5 == 2 && tc % 5 == 4);
        kani::cover!(z1 == 255);
    }

// @h id=H15.w prop=C15 tier=quick cap=900 mem=16 unwind=6 uw="FixW=130" stubs="Header::to_writer -> field recorder (as H2.1)" bounds="empty archive, every fail-stop point k (operation k and all later stream operations fail; k any u32, the fault-free run has fewer than 16 operations)"
    /// if the stream starts failing at any operation the archive writer returns an error: never a panic, never success for an incomplete transfer
    #[kani::proof]
    #[kani::stub(crate::header::Header::to_writer, hdr_to_writer_stub)]
    fn h15_w_writer_faults() {
        let k: u32 = kani::any();
        let mut p = PMTiles::new(TileType::Png, Compression::None);
        p.internal_compression = Compression::None;
        let mut arr = [0x55u8; 200];
        let mut out = FixW::new(&mut arr, 0);
        out.fail_from = k;
        let r = p.to_writer(&mut out);
        let ok = r.is_ok();
        std::mem::forget(r);
        assert!(ok == !out.failed);
        assert!(out.ops <= 16);
        if ok { assert!(k >= out.ops); }
        kani::cover!(ok);
        kani::cover!(!ok && k == 0);
        kani::cover!(!ok && k + 1 == out.ops);
        kani::cover!(!ok && k == 3);
    }

// @common
    use crate::verif_io::ROOT_BUDGET;
    use std::hash::{Hash, Hasher};

    /// copies of the stubs used by the tile-manager and spill harnesses (see there): injective content hash and
    /// fixed-shape reference directory encoder (every field a 1-byte varint, asserted)
    struct PackHasher2 { acc: u64 }
    impl Hasher for PackHasher2 {
        fn write(&mut self, bytes: &[u8]) {
            let mut i = 0;
            while i < 6 {
                if i < bytes.len() { self.acc = (self.acc << 8) | bytes[i] as u64; }
                i += 1;
            }
        }
        fn write_usize(&mut self, i: usize) { self.acc = (self.acc << 8) | (i as u64 & 0xff); }
        fn finish(&self) -> u64 { self.acc }
    }
    fn stub_hash2<R>(value: &impl Hash) -> u64 {
        let mut h = PackHasher2 { acc: 0 };
        value.hash(&mut h);
        h.finish()
    }
    fn stub_dir_to_writer(d: &crate::Directory, output: &mut impl Write, compression: Compression) -> Result<()> {
        if compression != Compression::None {
            return Err(std::io::Error::from(std::io::ErrorKind::Other));
        }
        let n = d.len();
        assert!(n <= 3);
        let mut buf = [0u8; 1 + 4 * 3];
        buf[0] = n as u8;
        let mut last = 0u64;
        let mut i = 0;
        while i < 3 {
            if i < n {
                let en = &d[i];
                if en.length == 0 {
                    return Err(std::io::Error::from(std::io::ErrorKind::InvalidData));
                }
                let delta = en.tile_id - last;
                last = en.tile_id;
                let code = if i > 0 && en.offset == d[i - 1].offset + d[i - 1].length as u64 { 0 } else { en.offset + 1 };
                assert!(delta < 128 && en.run_length < 128 && en.length < 128 && code < 128);
                buf[1 + i] = delta as u8;
                buf[1 + n + i] = en.run_length as u8;
                buf[1 + 2 * n + i] = en.length as u8;
                buf[1 + 3 * n + i] = code as u8;
            }
            i += 1;
        }
        output.write_all(&buf[..1 + 4 * n])
    }

// @h id=H2.2-v$v prop=C02,C17,C18 rep="v:4-5" quick="4-5" quick_C13="99" quick_C18="99" quick_C17="4" quick_C02="4" cap=900 mem=24 unwind=8 uw="only_leaf_pointer_strategy=1;FixW=130;h2_2_writer=40" stubs="Header::to_writer -> field recorder; Directory::to_writer -> fixed-shape reference encoder (1-byte fields); TileManager::calculate_hash -> injective packing; internal compression None; metadata = empty object" bounds="archive with T = 2 tiles at ids (5,6) [v0] or (5,9) [v1-3], contents concrete (v4: [7],[9] at ids 5,9; v5: [7],[7] at ids 5,6 = one merged run) - with symbolic contents the data length and entry count are symbolic and the solver exhausts 44 GB; every hash-map iteration order inside finish() is symbolic; start position 3 in a pre-filled stream; the spill loop is bounded at 0 iterations (unreachable for the real budget, unwinding assertion)"
    /// whole archive writer with tiles: the header describes exactly the sections that were written (root, metadata, leaf directories, tile data; contiguous, relative to the start), root/leaf bytes decode to the expected entries, each added tile's bytes are found through them, counters exact, header written last
    #[kani::proof]
    #[kani::stub(crate::header::Header::to_writer, hdr_to_writer_stub)]
    #[kani::stub(crate::directory::Directory::to_writer, stub_dir_to_writer)]
    #[kani::stub(crate::tile_manager::TileManager::calculate_hash, stub_hash2)]
    fn h2_2_writer_two_tiles_v$v() {
        const P: usize = 3;
        let (a, b): (u64, u64) = if $v == 0 || $v == 5 { (5, 6) } else { (5, 9) };
        let spill = $v == 2 || $v == 3;
        let mut ca: u8 = kani::any();
        let mut cb: u8 = kani::any();
        if $v == 4 { ca = 7; cb = 9; }
        if $v == 5 { ca = 7; cb = 7; }
        let mut p = PMTiles::new(TileType::Png, Compression::None);
        p.internal_compression = Compression::None;
        p.add_tile(a, vec![ca]).unwrap();
        p.add_tile(b, vec![cb]).unwrap();
        unsafe { ROOT_BUDGET = if spill { 5 } else { 0 }; }
        let mut arr = [0x55u8; 200];
        let mut out = FixW::new(&mut arr, P as u64);
        out.end = 200;
        out.frag = $v == 3;
        let r = p.to_writer(&mut out);
        assert!(r.is_ok());
        std::mem::forget(r);
        let (pos, lw_pos, lw_len, min_prev, frag) = (out.pos, out.last_write_pos, out.last_write_len, out.min_pos_prev, out.frag);
        #[cfg(verif_replay)]
        {
            let h = Header::from_bytes(&arr[P..P + 127]).unwrap();
            capture(&h);
        }
        let h = unsafe { CAP_HDR };
        assert!(unsafe { CAP_SET } == 1);
        // expected logical layout
        let same = ca == cb;
        let merged = same && b == a + 1;
        let n_entries: usize = if merged { 1 } else { 2 };
        let n_content: u64 = if same { 1 } else { 2 };
        let flat_len = 1 + 4 * n_entries;                 // all entries in one directory
        let (root_len, leaf_len) = if spill && n_entries == 2 { (5usize, flat_len) } else { (flat_len, 0usize) };
        assert!(h[0] == 127 && h[1] == root_len as u64);
        assert!(h[2] == 127 + root_len as u64 && h[3] == 2);
        assert!(h[4] == h[2] + 2 && h[5] == leaf_len as u64);
        assert!(h[6] == h[4] + h[5] && h[7] == n_content);
        assert!(h[8] == 2 && h[9] == n_entries as u64 && h[10] == n_content);
        let root = P + 127;
        let meta = root + root_len;
        let leaf = meta + 2;
        let data = leaf + leaf_len;
        assert!(arr[meta] == b'{' && arr[meta + 1] == b'}');
        assert!(pos as usize == data + n_content as usize);
        assert!(arr[data + n_content as usize] == 0x55);
        // tile data: each distinct content once, in id order
        assert!(arr[data] == ca);
        if !same { assert!(arr[data + 1] == cb); }
        // the directory holding the tile entries (root, or the single leaf when spilled)
        let d = if leaf_len > 0 { leaf } else { root };
        assert!(arr[d] as usize == n_entries);
        assert!(arr[d + 1] as u64 == a);                                   // first id (delta from 0)
        if n_entries == 2 {
            assert!(arr[d + 2] as u64 == b - a);                           // id delta
            assert!(arr[d + 3] == 1 && arr[d + 4] == 1);                   // run lengths
            assert!(arr[d + 5] == 1 && arr[d + 6] == 1);                   // lengths
            assert!(arr[d + 7] == 1);                                      // offset 0 (+1)
            // second tile: next content (contiguous => code 0) or the shared first content (offset 0 => code 1)
            assert!(arr[d + 8] == if same { 1 } else { 0 });
        } else {
            assert!(arr[d + 2] == 2 && arr[d + 3] == 1 && arr[d + 4] == 1);
        }
        if leaf_len > 0 {
            // root = one leaf pointer: id a, run 0, length = leaf bytes, offset 0 in the leaf section
            assert!(arr[root] == 1 && arr[root + 1] as u64 == a && arr[root + 2] == 0 && arr[root + 3] as usize == leaf_len && arr[root + 4] == 1);
        }
        // C18 / C17
        assert!(arr[0] == 0x55 && arr[1] == 0x55 && arr[2] == 0x55);
        assert!(lw_pos + lw_len == (P + 127) as u64);          // the last write completes the header
        assert!(min_prev >= (P + 127) as u64 || frag);      // nothing earlier touched the header range (full transfers)
        kani::cover!($v >= 4 || same);
        kani::cover!($v >= 4 || !same);
    }

// @h id=H19.3-k$k prop=C19 rep="k:0-5" quick="0-5" cap=120 mem=12 unwind=6 bounds="every non-object JSON value kind with empty/primitive payload (null, bool b, number n, empty string, empty array) and the empty object"
    /// metadata that is valid JSON but not an object is refused; an object is accepted
    #[kani::proof]
    fn h19_3_metadata_must_be_object_k$k() {
        let k: u8 = $k;
        let b: bool = kani::any();
        let n: u32 = kani::any();
        let v = match k {
            0 => JSONValue::Null,
            1 => JSONValue::Bool(b),
            2 => JSONValue::Number(serde_json::Number::from(n)),
            3 => JSONValue::String(String::new()),
            4 => JSONValue::Array(Vec::new()),
            _ => JSONValue::Object(JSONMap::new()),
        };
        let r = PMTiles::<Cursor<&[u8]>>::parse_meta_data(v);
        if k == 5 { assert!(r.is_ok()); } else { assert!(r.is_err()); }
        kani::cover!(k != 2 || n == 7);
        kani::cover!(k != 1 || b);
        std::mem::forget(r);
    }

// @h id=H19.4 prop=C19 tier=quick cap=600 mem=16 unwind=6 uw="FixW=130" stubs="Header::to_writer -> field recorder" bounds="empty archive with internal compression Unknown written to a 200-byte stream; codec factories called with Unknown"
    /// 'unknown' internal compression is refused when writing (error value, no panic) and by both codec factories
    #[kani::proof]
    #[kani::stub(crate::header::Header::to_writer, hdr_to_writer_stub)]
    fn h19_4_unknown_compression_refused() {
        let mut p = PMTiles::new(TileType::Png, Compression::None);
        p.internal_compression = Compression::Unknown;
        let mut arr = [0x55u8; 200];
        let mut out = FixW::new(&mut arr, 0);
        let r = p.to_writer(&mut out);
        assert!(r.is_err());
        std::mem::forget(r);
        let mut sink = [0u8; 8];
        let mut w2 = FixW::new(&mut sink, 0);
        let c = compress(Compression::Unknown, &mut w2);
        assert!(c.is_err());
        std::mem::forget(c);
        let src = [0u8; 4];
        let mut cur = Cursor::new(&src[..]);
        let d = decompress(Compression::Unknown, &mut cur);
        assert!(d.is_err());
        std::mem::forget(d);
        kani::cover!(true);
        kani::cover!(unsafe { CAP_SET } == 0);   // no header was produced
    }
