// @common
    use crate::verif_ref::{base, spec_tile_id};

// @h id=H7.2-z$z prop=C07 rep="z:0-31" quick="0-22" cap=1200 mem=8 unwind=34 bounds="zoom $z fixed, every x,y < 2^$z symbolic (full grid of the zoom)"
    /// tile_id equals the specification's algorithm (rotate/flip loop) on the whole grid of one zoom, and lies in the zoom's block.
    #[kani::proof]
    fn h7_2_spec_z$z() {
        let z: u8 = $z;
        let x: u64 = kani::any();
        let y: u64 = kani::any();
        kani::assume(x < (1u64 << z) && y < (1u64 << z));
        let id = tile_id(z, x, y);
        assert!(id == spec_tile_id(z, x, y));
        assert!(id >= base(z) && id < base(z + 1));
        kani::cover!(x == (1u64 << z) - 1 && y == 0);
        kani::cover!(x == 0 && y == (1u64 << z) - 1);
    }

// @h id=H7.1 prop=C07 tier=quick cap=1500 mem=8 unwind=34 bounds="every zoom z <= 31 and every x,y < 2^z in ONE query (about 6.1e18 points, full domain)"
    /// zxy(tile_id(z,x,y)) == (z,x,y) for every in-grid coordinate of every zoom.
    #[kani::proof]
    fn h7_1_roundtrip_all() {
        let z: u8 = kani::any();
        let x: u64 = kani::any();
        let y: u64 = kani::any();
        kani::assume(z <= 31);
        kani::assume(x < (1u64 << z) && y < (1u64 << z));
        let id = tile_id(z, x, y);
        let r = zxy(id);
        assert!(r.is_ok());
        let (z2, x2, y2) = r.unwrap();
        assert!(z2 == z && x2 == x && y2 == y);
        kani::cover!(z == 31 && x == (1u64 << 31) - 1 && y == 0);
        kani::cover!(z == 0);
        kani::cover!(z == 17 && x == 5 && y == 77);
    }

// @h id=H7.3 prop=C07,C08 tier=quick cap=900 mem=8 unwind=34 checks=std bounds="every tile id in u64 (full domain)"
    /// every id below the first id of zoom 32 converts back and re-encodes to itself; every larger id is an error; never a panic.
    #[kani::proof]
    fn h7_3_zxy_total() {
        let id: u64 = kani::any();
        let r = zxy(id);
        if id < base(32) {
            assert!(r.is_ok());
            let (z, x, y) = r.unwrap();
            assert!(z <= 31);
            assert!(x < (1u64 << z) && y < (1u64 << z));
            assert!(tile_id(z, x, y) == id);
        } else {
            assert!(r.is_err());
        }
        kani::cover!(id == base(32) - 1);
        kani::cover!(id == base(32));
        kani::cover!(id == u64::MAX);
        kani::cover!(id == 0);
    }

// @h id=H7.5-z$z prop=C07 rep="z:1-31" quick="1-16" cap=900 mem=8 unwind=34 bounds="zoom $z fixed; every pair of consecutive ids inside the zoom"
    /// consecutive ids within a zoom are edge-adjacent tiles
    #[kani::proof]
    fn h7_5_adjacent_z$z() {
        let z: u8 = $z;
        let d: u64 = kani::any();
        kani::assume(d < (1u64 << (2 * z as u32)) - 1);
        let (za, xa, ya) = zxy(base(z) + d).unwrap();
        let (zb, xb, yb) = zxy(base(z) + d + 1).unwrap();
        assert!(za == z && zb == z);
        let dx = if xa > xb { xa - xb } else { xb - xa };
        let dy = if ya > yb { ya - yb } else { yb - ya };
        assert!(dx + dy == 1);
        kani::cover!(d == 0);
        kani::cover!(d + 2 == (1u64 << (2 * z as u32)));
    }

// @h id=H7.6-z$z prop=C07 rep="z:0-30" quick="0-14" cap=900 mem=8 unwind=34 bounds="parent zoom $z fixed; every parent x,y < 2^$z and all four children"
    /// a tile's four children occupy the aligned block of four positions below the parent's position
    #[kani::proof]
    fn h7_6_children_z$z() {
        let z: u8 = $z;
        let x: u64 = kani::any();
        let y: u64 = kani::any();
        let a: u64 = kani::any();
        let b: u64 = kani::any();
        kani::assume(x < (1u64 << z) && y < (1u64 << z) && a < 2 && b < 2);
        let p = tile_id(z, x, y) - base(z);
        let c = tile_id(z + 1, 2 * x + a, 2 * y + b) - base(z + 1);
        assert!(c >> 2 == p);
        kani::cover!(a == 1 && b == 0);
        kani::cover!(a == 0 && b == 1 && x + 1 == (1u64 << z));
    }

// @h id=H7.4 prop=C07 tier=quick cap=300 unwind=34 bounds="all zooms 0..=31: block [base(z), base(z+1)) bounds from the corner tiles; base() closed form vs the crate's running sum (concrete loop)"
    /// zoom blocks are contiguous and placed after all lower zooms: first id of zoom z is base(z); (the per-zoom harnesses H7.1 prove base(z) <= id < base(z+1) for every tile)
    #[kani::proof]
    fn h7_4_blocks() {
        let z: u8 = kani::any();
        kani::assume(z <= 31);
        assert!(tile_id(z, 0, 0) == base(z));
        if z > 0 {
            // last id of the previous zoom + 1 == first id of this zoom
            let r = zxy(base(z) - 1).unwrap();
            assert!(r.0 == z - 1);
            let r2 = zxy(base(z)).unwrap();
            assert!(r2 == (z, 0, 0));
        }
        kani::cover!(z == 31);
        kani::cover!(z == 0);
    }
