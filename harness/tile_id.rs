// @common
    use crate::verif_ref::{base, spec_tile_id};

// @h id=H7.2-z$z prop=C07 rep="z:0-31" quick="0-16" cap=1200 mem=8 unwind=34 bounds="zoom $z fixed, every x,y < 2^$z symbolic (full grid of the zoom)"
    /// tile_id equals the specification's algorithm (rotate/flip loop) on the whole grid of one zoom, and lies in the zoom's block.
    #[kani::proof]
    fn h7_2_spec_z$z() {
        let z: u8 = $z;
        let x: u64 = kani::any();
        let y: u64 = kani::any();
        kani::assume(x < (1u64 << z) && y < (1u64 << z));
        let id = tile_id(z, x, y);
        assert!(id == spec_tile_id(z, x, y));
        assert!(id >= base(z) && id < base(z + 1));
        kani::cover!(x == (1u64 << z) - 1 && y == 0);
        kani::cover!(x == 0 && y == (1u64 << z) - 1);
    }

// @h id=H7.1-b$b prop=C07 rep="b:0-5" quick="0-5" cap=1500 mem=8 unwind=34 bounds="zoom band $b of {0-12,13-20,21-25,26-28,29-30,31}: every zoom in the band and every x,y < 2^z symbolic in one query; the six bands together are the full domain (about 6.1e18 points)"
    /// zxy(tile_id(z,x,y)) == (z,x,y) for every in-grid coordinate of every zoom of the band.
    #[kani::proof]
    fn h7_1_roundtrip_b$b() {
        const BANDS: [(u8, u8); 6] = [(0, 12), (13, 20), (21, 25), (26, 28), (29, 30), (31, 31)];
        let (lo, hi) = BANDS[$b];
        let z: u8 = kani::any();
        let x: u64 = kani::any();
        let y: u64 = kani::any();
        kani::assume(z >= lo && z <= hi);
        kani::assume(x < (1u64 << z) && y < (1u64 << z));
        let id = tile_id(z, x, y);
        let r = zxy(id);
        assert!(r.is_ok());
        let (z2, x2, y2) = r.unwrap();
        assert!(z2 == z && x2 == x && y2 == y);
        kani::cover!(z == hi && x == (1u64 << z) - 1 && y == 0);
        kani::cover!(z == lo && x == 0 && y == (1u64 << z) - 1);
    }

// @h id=H7.3-b$b prop=C07,C08 rep="b:0-6" quick="0-6" quick_C08="5-6" cap=1500 mem=8 unwind=34 checks=std bounds="id band $b of the u64 id space: ids of zooms {0-12,13-20,21-25,26-28,29-30,31} and band 6 = every id >= first id of zoom 32 up to u64::MAX; the seven bands together are every u64"
    /// every id below the first id of zoom 32 converts back and re-encodes to itself; every larger id is an error; never a panic.
    #[kani::proof]
    fn h7_3_zxy_total_b$b() {
        const EDGES: [u8; 8] = [0, 13, 21, 26, 29, 31, 32, 33];
        let lo = base(EDGES[$b]);
        let id: u64 = kani::any();
        if $b < 6 {
            kani::assume(id >= lo && id < base(EDGES[$b + 1]));
        } else {
            kani::assume(id >= lo);
        }
        let r = zxy(id);
        if id < base(32) {
            assert!(r.is_ok());
            let (z, x, y) = r.unwrap();
            assert!(z <= 31);
            assert!(x < (1u64 << z) && y < (1u64 << z));
            assert!(tile_id(z, x, y) == id);
        } else {
            assert!(r.is_err());
        }
        kani::cover!(id == lo);
        kani::cover!($b != 6 || id == u64::MAX);
        kani::cover!($b != 5 || id == base(32) - 1);
        kani::cover!($b == 6 || id + 1 == base(EDGES[$b + 1]));
    }

// @h id=H7.5-z$z prop=C07 rep="z:1-31" quick="1-3" cap=900 mem=8 unwind=34 bounds="zoom $z fixed; every pair of consecutive ids inside the zoom"
    /// consecutive ids within a zoom are edge-adjacent tiles
    #[kani::proof]
    fn h7_5_adjacent_z$z() {
        let z: u8 = $z;
        let d: u64 = kani::any();
        kani::assume(d < (1u64 << (2 * z as u32)) - 1);
        let (za, xa, ya) = zxy(base(z) + d).unwrap();
        let (zb, xb, yb) = zxy(base(z) + d + 1).unwrap();
        assert!(za == z && zb == z);
        let dx = if xa > xb { xa - xb } else { xb - xa };
        let dy = if ya > yb { ya - yb } else { yb - ya };
        assert!(dx + dy == 1);
        kani::cover!(d == 0);
        kani::cover!(d + 2 == (1u64 << (2 * z as u32)));
    }

// @h id=H7.6-z$z prop=C07 rep="z:0-30" quick="0,1,5,10,15,20,25,30" cap=900 mem=8 unwind=34 bounds="parent zoom $z fixed; every parent x,y < 2^$z and all four children"
    /// a tile's four children occupy the aligned block of four positions below the parent's position
    #[kani::proof]
    fn h7_6_children_z$z() {
        let z: u8 = $z;
        let x: u64 = kani::any();
        let y: u64 = kani::any();
        let a: u64 = kani::any();
        let b: u64 = kani::any();
        kani::assume(x < (1u64 << z) && y < (1u64 << z) && a < 2 && b < 2);
        let p = tile_id(z, x, y) - base(z);
        let c = tile_id(z + 1, 2 * x + a, 2 * y + b) - base(z + 1);
        assert!(c >> 2 == p);
        kani::cover!(a == 1 && b == 0);
        kani::cover!(a == 0 && b == 1 && x + 1 == (1u64 << z));
    }

// @h id=H7.4 prop=C07 tier=quick cap=300 unwind=34 bounds="all zooms 0..=31: block [base(z), base(z+1)) bounds from the corner tiles; base() closed form vs the crate's running sum (concrete loop)"
    /// zoom blocks are contiguous and placed after all lower zooms: first id of zoom z is base(z); (the per-zoom harnesses H7.1 prove base(z) <= id < base(z+1) for every tile)
    #[kani::proof]
    fn h7_4_blocks() {
        let z: u8 = kani::any();
        kani::assume(z <= 31);
        assert!(tile_id(z, 0, 0) == base(z));
        if z > 0 {
            // last id of the previous zoom + 1 == first id of this zoom
            let r = zxy(base(z) - 1).unwrap();
            assert!(r.0 == z - 1);
            let r2 = zxy(base(z)).unwrap();
            assert!(r2 == (z, 0, 0));
        }
        kani::cover!(z == 31);
        kani::cover!(z == 0);
    }
