// @common
    use deku::bitvec::{BitVec, Msb0};

// @h id=R9.a prop=C09 tier=replayonly bounds="native replay only (the bitvec-based codec cannot be symbolically executed); used to confirm E2's counterexample candidates against the real functions"
    /// parse -> serialise reproduces the stored coordinate
    #[kani::proof]
    fn r9_a_roundtrip() {
        let v: i32 = kani::any();
        let mut stored: BitVec<u8, Msb0> = BitVec::new();
        v.write(&mut stored, ()).unwrap();
        let (_, deg) = LatLng::read_lat_lon(stored.as_bitslice()).unwrap();
        let mut again: BitVec<u8, Msb0> = BitVec::new();
        LatLng::write_lat_lon(&mut again, deg).unwrap();
        assert!(stored == again, "stored coordinate changed on parse -> serialise");
    }

// @h id=R9.b prop=C09 tier=replayonly bounds="native replay only"
    /// degrees are stored as the nearest multiple of 1e-7
    #[kani::proof]
    fn r9_b_nearest() {
        let bits: u64 = kani::any();
        let x = f64::from_bits(bits);
        kani::assume(x >= -180.0 && x <= 180.0);
        let mut out: BitVec<u8, Msb0> = BitVec::new();
        LatLng::write_lat_lon(&mut out, x).unwrap();
        let (_, n) = i32::read(out.as_bitslice(), ()).unwrap();
        let err = (f64::from(n) - x * 1e7).abs();
        assert!(err <= 0.5 + 1e-6, "stored value is not the nearest multiple of 1e-7");
    }
